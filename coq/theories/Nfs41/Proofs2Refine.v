(* Every event of the NFSv4.1 model acts on the view (Proofs2View.v) as a
   sequence of the transitions of Proofs2Abs.v.  Part 1: bookkeeping that
   leaves the view unchanged, removal of open and lock state (CLOSE,
   expiry, re-registration), the session operations. *)
From VF Require Export Nfs41.Proofs2Abs Nfs41.ProofsExpiry.
Open Scope N_scope.

(* ---- the view does not see ... ---------------------------------------------------- *)
Lemma view_same : forall st st',
  st_clients st' = st_clients st -> st_pool st' = st_pool st -> st_nextlo st' = st_nextlo st ->
  view st' = view st.
Proof. intros st st' H1 H2 H3. unfold view. rewrite H1, H2, H3. reflexivity. Qed.

Lemma view_fields : forall st st' c c',
  NoDup (map c_id (st_clients st)) -> find_client (c_id c) (st_clients st) = Some c ->
  c_id c' = c_id c -> c_oofs c' = c_oofs c -> c_lowners c' = c_lowners c ->
  st_clients st' = upd_client c' (st_clients st) -> st_pool st' = st_pool st -> st_nextlo st' = st_nextlo st ->
  view st' = view st.
Proof.
  intros st st' c c' I Hf E1 E2 E3 H1 H2 H3. unfold view. rewrite H1, H2, H3. f_equal.
  apply (vc_upd_same c' c); [exact I|rewrite E1; exact Hf|].
  unfold vc. rewrite E1, E2, E3. reflexivity.
Qed.

Lemma find_client_id : forall id cs c, find_client id cs = Some c -> c_id c = id.
Proof. intros id cs c H. rewrite find_client_k in H. apply (kfind_key c_id) in H. exact H. Qed.

Lemma hold_view : forall id st, NoDup (map c_id (st_clients st)) -> view (hold id st) = view st.
Proof.
  intros id st I. unfold hold. destruct (find_client id (st_clients st)) as [c|] eqn:Ef; [|reflexivity].
  pose proof (find_client_id _ _ _ Ef) as Hid. rewrite <- Hid in Ef.
  destruct (c_hold c =? 0);
    eapply (view_fields st _ c (c_set_hold c (c_hold c + 1) (c_seen c))); try reflexivity; assumption.
Qed.

Lemma release_view : forall id st, NoDup (map c_id (st_clients st)) -> view (release id st) = view st.
Proof.
  intros id st I. unfold release. destruct (find_client id (st_clients st)) as [c|] eqn:Ef; [|reflexivity].
  pose proof (find_client_id _ _ _ Ef) as Hid. rewrite <- Hid in Ef.
  destruct (c_hold c =? 0); [reflexivity|].
  destruct (c_hold c =? 1);
    [eapply (view_fields st _ c (c_set_hold c 0 (st_now st)))
    |eapply (view_fields st _ c (c_set_hold c (N.pred (c_hold c)) (c_seen c)))]; try reflexivity; assumption.
Qed.

Lemma touch_view : forall id st, NoDup (map c_id (st_clients st)) -> view (touch id st) = view st.
Proof.
  intros id st I. unfold touch. destruct (find_client id (st_clients st)) as [c|] eqn:Ef; [|reflexivity].
  pose proof (find_client_id _ _ _ Ef) as Hid. rewrite <- Hid in Ef.
  destruct (c_hold c =? 0); [|reflexivity].
  eapply (view_fields st _ c (c_set_hold c 0 (st_now st))); try reflexivity; assumption.
Qed.

Lemma set_slot_view : forall st ss i f, view (set_slot st ss i f) = view st.
Proof. reflexivity. Qed.

Section Refine.
  Variable Q : LS.lock -> Prop.

  (* ---- lock-owner files of one open-owner file ------------------------------------- *)
  Section OneClient.
    Variables (cls : list vcl) (nextlo cid : N).
    Hypothesis Hcls : NoDup (map vc_id cls).
    Hypothesis Hfound : exists c0, kfind vc_id cid cls = Some c0.

    Definition S (oofs : list voof) (lows : list lowner) (pool : list pfile) : vstate :=
      mkV (kupd vc_id (mkVC cid oofs lows) cls) pool nextlo.

    Lemma S_found : forall oofs lows pool,
      kfind vc_id (vc_id (mkVC cid oofs lows)) (v_cls (S oofs lows pool)) = Some (mkVC cid oofs lows).
    Proof.
      intros. destruct Hfound as [c0 H0]. cbn [v_cls S vc_id].
      apply (kfind_kupd_same vc_id (mkVC cid oofs lows) cls c0). exact H0.
    Qed.

    Lemma S_put : forall oofs lows pool oofs' lows' pool',
      vput (S oofs lows pool) (mkVC cid oofs' lows') pool' nextlo = S oofs' lows' pool'.
    Proof. intros. unfold vput, S. cbn [v_cls]. rewrite (kupd_kupd vc_id) by reflexivity. reflexivity. Qed.

    Lemma lofs_rm_view : forall unlock lfs o lows pool o' lows' pool' outs pn,
      lofs_remove_all unlock lfs o lows pool = (o', lows', pool', outs, pn) ->
      of_live o = true ->
      NoDup (map lf_other lfs) ->
      (forall lf, In lf lfs -> kfind lf_other (lf_other lf) (of_lofs o) = Some lf) ->
      (unlock = false -> forall lf, In lf lfs -> (lf_count lf <= 0)%Z) ->
      forall oofs, NoDup (map vo_other oofs) -> kfind vo_other (of_other o) oofs = Some (vo o) ->
      vpath Q (S oofs lows pool) (S (kupd vo_other (vo o') oofs) lows' pool')
      /\ of_other o' = of_other o /\ of_handle o' = of_handle o /\ of_live o' = of_live o
      /\ of_lofs o' = fold_left (fun l lf => del_lofs (lf_other lf) l) lfs (of_lofs o).
    Proof.
      intros unlock lfs. induction lfs as [|lf tl IH];
        intros o lows pool o' lows' pool' outs pn H Hlive Hnd Hall Hgate oofs Hoo Hfo.
      - cbn in H. inversion H; subst. split; [|auto].
        apply vpath_eq. rewrite (kupd_same vo_other oofs (vo o') Hoo Hfo). reflexivity.
      - cbn [lofs_remove_all] in H.
        destruct (if unlock && (0 <? lf_count lf)%Z then _ else _) as [cnt0 pool1] eqn:Ep.
        destruct (oofs_downgrade o (lf_share lf) m0) as [[o1 outs1] pn1] eqn:Ed.
        destruct (lowner_dec (lf_owner lf) lows) as [lows1 pn2] eqn:El.
        set (o2 := o_set o1 (of_seq o1) (of_share o1) (of_readers o1) (of_writers o1)
                         (del_lofs (lf_other lf) (of_lofs o1)) (of_live o1)) in *.
        destruct (lofs_remove_all unlock tl o2 lows1 pool1) as [[[[o3 lows2] pool2] outs2] pn3] eqn:Er.
        inversion H; subst o3 lows2 pool2 outs pn; clear H.
        assert (Ho1 : of_other o1 = of_other o /\ of_handle o1 = of_handle o /\ of_live o1 = of_live o
                      /\ of_lofs o1 = of_lofs o).
        { unfold oofs_downgrade in Ed. destruct (sc_downgrade _ _ _ _) as [[[rd wr] bz] pn0].
          inversion Ed; subst. cbn. auto. }
        destruct Ho1 as [A1 [A2 [A3 A4]]].
        assert (Hpool1 : pool1 = if unlock && (0 <? vl_count (vl lf))%Z
                                 then unlock_all (vo_handle (vo o)) (vl_owner (vl lf)) pool else pool).
        { cbn [vl vl_count vl_owner vo vo_handle]. destruct (unlock && (0 <? lf_count lf)%Z); inversion Ep; reflexivity. }
        assert (Hvo2 : vo o2 = mkVO (vo_other (vo o)) (vo_handle (vo o)) true
                                   (kdel vl_other (vl_other (vl lf)) (vo_lofs (vo o)))).
        { subst o2. unfold vo at 1. cbn [of_other of_handle of_live of_lofs o_set].
          rewrite A1, A2, A3, A4, Hlive, vl_del_lofs. reflexivity. }
        assert (Hlf : kfind lf_other (lf_other lf) (of_lofs o) = Some lf) by (apply Hall; left; reflexivity).
        (* one transition *)
        assert (T : vtr Q (S oofs lows pool) (S (kupd vo_other (vo o2) oofs) lows1 pool1)).
        { pose proof (vt_rmlof Q (S oofs lows pool) (mkVC cid oofs lows) (vo o) (vl lf) unlock
                        (S_found oofs lows pool)) as T0.
          cbn [vc_oofs vc_lows vc_id] in T0.
          specialize (T0 Hfo Hlive (vfind_lofs _ _ _ Hlf) (fun E => Hgate E lf (or_introl eq_refl))).
          rewrite S_put in T0. cbn [v_pool S] in T0. rewrite <- Hpool1, <- Hvo2 in T0. cbn [vl vl_owner] in T0. rewrite El in T0. exact T0. }
        (* the rest *)
        assert (Hlive2 : of_live o2 = true) by (subst o2; cbn; congruence).
        assert (Hnd2 : NoDup (map lf_other tl)) by (cbn in Hnd; inversion Hnd; assumption).
        assert (Hall2 : forall lf', In lf' tl -> kfind lf_other (lf_other lf') (of_lofs o2) = Some lf').
        { intros lf' Hin. subst o2. cbn [of_lofs o_set]. rewrite A4.
          change (kfind lf_other (lf_other lf') (kdel lf_other (lf_other lf) (of_lofs o)) = Some lf').
          rewrite (kfind_kdel_other lf_other).
          - apply Hall. right. exact Hin.
          - intros E. cbn in Hnd. inversion Hnd as [|? ? Hni _]. apply Hni. rewrite <- E. apply in_map. exact Hin. }
        assert (Ho2o : of_other o2 = of_other o) by (subst o2; cbn; exact A1).
        assert (Hoo2 : NoDup (map vo_other (kupd vo_other (vo o2) oofs))) by (apply (kupd_nodup vo_other); exact Hoo).
        assert (Hfo2 : kfind vo_other (of_other o2) (kupd vo_other (vo o2) oofs) = Some (vo o2)).
        { replace (of_other o2) with (vo_other (vo o2)) by reflexivity.
          apply (kfind_kupd_same vo_other (vo o2) oofs (vo o)). cbn [vo vo_other]. rewrite Ho2o. exact Hfo. }
        assert (Hgate2 : unlock = false -> forall lf', In lf' tl -> (lf_count lf' <= 0)%Z)
          by (intros E lf' Hin; apply (Hgate E); right; exact Hin).
        destruct (IH o2 lows1 pool1 o' lows' pool' outs2 pn3 Er Hlive2 Hnd2 Hall2 Hgate2 _ Hoo2 Hfo2)
          as [P [B1 [B2 [B3 B4]]]].
        rewrite (kupd_kupd vo_other) in P by (cbn [vo vo_other]; exact B1).
        split; [eapply vp_step; [exact T|exact P]|].
        split; [congruence|]. split; [subst o2; cbn in B2; congruence|]. split; [subst o2; cbn in B3; congruence|].
        rewrite B4. subst o2. cbn [of_lofs o_set fold_left]. rewrite A4. reflexivity.
    Qed.
  End OneClient.

  Lemma fold_del_all : forall l, NoDup (map lf_other l) -> fold_left (fun l lf => del_lofs (lf_other lf) l) l l = [].
  Proof.
    assert (G : forall l l', NoDup (map lf_other (l ++ l')) ->
                fold_left (fun l0 lf => del_lofs (lf_other lf) l0) l (l ++ l') = l').
    { induction l as [|x l IH]; intros l' H; [reflexivity|]. cbn [fold_left app].
      rewrite (del_lofs_head x (l ++ l')) by exact H. apply IH. cbn in H. inversion H; assumption. }
    intros l H. specialize (G l []). rewrite app_nil_r in G. apply G. exact H.
  Qed.

  (* ---- oofs.remove ------------------------------------------------------------------- *)
  Definition lofs_nodup (c : client) : Prop := forall o, In o (c_oofs c) -> NoDup (map lf_other (of_lofs o)).

  Lemma oofs_remove_view : forall cls nextlo o c pool c1 pool1 outs pn,
    oofs_remove o c pool = (c1, pool1, outs, pn) ->
    NoDup (map vc_id cls) -> kfind vc_id (c_id c) cls = Some (vc c) ->
    NoDup (map of_other (c_oofs c)) -> lofs_nodup c ->
    find_oofs_any (of_other o) (c_oofs c) = Some o -> of_live o = true ->
    vpath Q (mkV cls pool nextlo) (mkV (kupd vc_id (vc c1) cls) pool1 nextlo)
    /\ c_id c1 = c_id c
    /\ exists o3, c_oofs c1 = upd_oofs o3 (c_oofs c) /\ of_other o3 = of_other o /\ of_live o3 = false
                  /\ of_lofs o3 = [].
  Proof.
    intros cls nextlo o c pool c1 pool1 outs pn H Hcls Hfc Hoo Hln Hfo Hlive. unfold oofs_remove in H.
    destruct (lofs_remove_all true (of_lofs o) o (c_lowners c) pool) as [[[[o1 lows] pool0] outs1] pn1] eqn:Er.
    destruct (oofs_downgrade o1 (of_share o1) m0) as [[o2 outs2] pn2] eqn:Ed.
    destruct (pool_close (of_handle o) pool0) as [pool2 pn3] eqn:Ec.
    inversion H; subst c1 pool1 outs pn; clear H.
    assert (Hoin : In o (c_oofs c)) by (rewrite find_oofs_any_k in Hfo; eapply kfind_in; eauto).
    pose proof (Hln o Hoin) as Hnd.
    assert (Hall : forall lf, In lf (of_lofs o) -> kfind lf_other (lf_other lf) (of_lofs o) = Some lf).
    { intros lf Hin. apply kfind_in_nodup; assumption. }
    assert (Hfound : exists c0, kfind vc_id (c_id c) cls = Some c0) by eauto.
    assert (Hvoo : NoDup (map vo_other (map vo (c_oofs c)))) by (rewrite (map_keys of_other vo_other vo vo_key); exact Hoo).
    destruct (lofs_rm_view cls nextlo (c_id c) Hfound true (of_lofs o) o (c_lowners c) pool o1 lows pool0 outs1 pn1
                Er Hlive Hnd Hall (fun E => False_ind _ (Bool.diff_true_false E)) (map vo (c_oofs c)) Hvoo (vfind_oofs _ _ _ Hfo))
      as [P [B1 [B2 [B3 B4]]]].
    rewrite fold_del_all in B4 by exact Hnd.
    assert (Ho2 : of_other o2 = of_other o1 /\ of_handle o2 = of_handle o1).
    { unfold oofs_downgrade in Ed. destruct (sc_downgrade _ _ _ _) as [[[rd wr] bz] pn0]. inversion Ed; subst. cbn. auto. }
    destruct Ho2 as [C1 C2].
    set (o3 := o_set o2 (of_seq o2) m0 (of_readers o2) (of_writers o2) [] false).
    assert (Hvo3 : vo o3 = mkVO (vo_other (vo o1)) (vo_handle (vo o1)) false []).
    { subst o3. unfold vo. cbn. rewrite C1, C2. reflexivity. }
    (* the start state *)
    assert (Hstart : S cls nextlo (c_id c) (map vo (c_oofs c)) (c_lowners c) pool = mkV cls pool nextlo).
    { unfold S. f_equal. change (mkVC (c_id c) (map vo (c_oofs c)) (c_lowners c)) with (vc c).
      apply (kupd_same vc_id cls (vc c) Hcls). exact Hfc. }
    rewrite Hstart in P.
    (* the close *)
    set (oofs1 := kupd vo_other (vo o1) (map vo (c_oofs c))) in *.
    assert (T : vtr Q (S cls nextlo (c_id c) oofs1 lows pool0)
                      (S cls nextlo (c_id c) (kupd vo_other (vo o3) (map vo (c_oofs c))) lows pool2)).
    { pose proof (vt_close Q (S cls nextlo (c_id c) oofs1 lows pool0) (mkVC (c_id c) oofs1 lows) (vo o1)
                    (S_found cls nextlo (c_id c) Hfound oofs1 lows pool0)) as T0.
      cbn [vc_oofs] in T0.
      assert (F1 : kfind vo_other (vo_other (vo o1)) oofs1 = Some (vo o1)).
      { subst oofs1. apply (kfind_kupd_same vo_other (vo o1) _ (vo o)). cbn [vo vo_other]. rewrite B1.
        apply vfind_oofs. exact Hfo. }
      specialize (T0 F1). cbn [vo vo_live vo_lofs] in T0. rewrite B3, B4 in T0. specialize (T0 Hlive eq_refl).
      unfold cput in T0. cbn [vc_id vc_oofs vc_lows] in T0. rewrite S_put in T0.
      unfold S in T0 |- *. cbn [v_pool v_nextlo vo vo_handle vo_other] in T0. rewrite B2, Ec in T0. cbn [fst] in T0.
      subst oofs1. rewrite (kupd_kupd vo_other) in T0 by reflexivity.
      rewrite Hvo3. cbn [vo vo_other vo_handle]. rewrite B2. exact T0. }
    split.
    - eapply vpath_trans; [exact P|]. eapply vp_step; [exact T|]. apply vpath_eq.
      unfold S. f_equal. unfold vc. cbn [c_id c_oofs c_lowners c_set_lowners c_set_oofs]. rewrite vo_upd_oofs. reflexivity.
    - split; [reflexivity|]. exists o3. cbn [c_oofs c_set_lowners c_set_oofs]. split; [reflexivity|].
      subst o3. cbn. split; [congruence|auto].
  Qed.

  Lemma oofs_remove_all_view : forall others cls nextlo c pool c1 pool1 outs pn,
    oofs_remove_all others c pool = (c1, pool1, outs, pn) ->
    NoDup (map vc_id cls) -> kfind vc_id (c_id c) cls = Some (vc c) ->
    NoDup (map of_other (c_oofs c)) -> lofs_nodup c ->
    vpath Q (mkV cls pool nextlo) (mkV (kupd vc_id (vc c1) cls) pool1 nextlo)
    /\ c_id c1 = c_id c
    /\ (forall o1, In o1 (c_oofs c1) -> of_live o1 = true ->
          ~ In (of_other o1) others
          /\ exists o, In o (c_oofs c) /\ of_live o = true /\ of_other o = of_other o1).
  Proof.
    induction others as [|x tl IH]; intros cls nextlo c pool c1 pool1 outs pn H Hcls Hfc Hoo Hln.
    - cbn in H. inversion H; subst. split; [|split; [reflexivity|]].
      + apply vpath_eq. rewrite (kupd_same vc_id cls (vc c1) Hcls Hfc). reflexivity.
      + intros o1 Hin Hl. split; [intros []|]. exists o1. auto.
    - cbn [oofs_remove_all] in H.
      destruct (find_oofs x (c_oofs c)) as [o|] eqn:Ef.
      + destruct (oofs_remove o c pool) as [[[c2 pool2] outs1] pn1] eqn:Er.
        destruct (oofs_remove_all tl c2 pool2) as [[[c3 pool3] outs2] pn2] eqn:Er2.
        inversion H; subst c3 pool3 outs pn; clear H.
        destruct (find_oofs_any_of_live _ _ _ Hoo Ef) as [Hfo Hlive].
        assert (Hox : of_other o = x) by (rewrite find_oofs_any_k in Hfo; eapply kfind_key; eauto).
        rewrite <- Hox in Hfo.
        destruct (oofs_remove_view cls nextlo o c pool c2 pool2 outs1 pn1 Er Hcls Hfc Hoo Hln Hfo Hlive)
          as [P1 [Hid2 [o3 [R1 [R2 [R3 R4]]]]]].
        assert (Hcls2 : NoDup (map vc_id (kupd vc_id (vc c2) cls))) by (apply (kupd_nodup vc_id); exact Hcls).
        assert (Hfc2 : kfind vc_id (c_id c2) (kupd vc_id (vc c2) cls) = Some (vc c2)).
        { change (c_id c2) with (vc_id (vc c2)). apply (kfind_kupd_same vc_id (vc c2) cls (vc c)).
          cbn [vc vc_id]. rewrite Hid2. exact Hfc. }
        assert (Hoo2 : NoDup (map of_other (c_oofs c2))) by (rewrite R1, upd_oofs_k, (kupd_keys of_other); exact Hoo).
        assert (Hln2 : lofs_nodup c2).
        { intros o2 Ho2. rewrite R1, upd_oofs_k in Ho2. apply (kupd_in of_other) in Ho2.
          destruct Ho2 as [->|[Ho2 _]]; [rewrite R4; constructor|apply Hln; exact Ho2]. }
        destruct (IH _ nextlo c2 pool2 c1 pool1 outs2 pn2 Er2 Hcls2 Hfc2 Hoo2 Hln2) as [P2 [Hid1 Hlv]].
        rewrite (kupd_kupd vc_id) in P2 by (cbn [vc vc_id]; exact Hid1).
        split; [eapply vpath_trans; eauto|]. split; [congruence|].
        intros o1 Hin1 Hl1. destruct (Hlv o1 Hin1 Hl1) as [Hni [o2 [Hin2 [Hl2 Ho2]]]].
        rewrite R1, upd_oofs_k in Hin2. apply (kupd_in of_other) in Hin2. destruct Hin2 as [->|[Hin2 Hne]].
        * rewrite R3 in Hl2. discriminate.
        * split.
          -- intros [Hx|Hx]; [|contradiction]. apply Hne. rewrite R2, Hox, Hx. exact Ho2.
          -- exists o2. auto.
      + destruct (IH cls nextlo c pool c1 pool1 outs pn H Hcls Hfc Hoo Hln) as [P [Hid Hlv]].
        split; [exact P|]. split; [exact Hid|].
        intros o1 Hin1 Hl1. destruct (Hlv o1 Hin1 Hl1) as [Hni [o2 [Hin2 [Hl2 Ho2]]]].
        split; [|exists o2; auto].
        intros [Hx|Hx]; [|contradiction].
        unfold find_oofs in Ef. eapply find_none in Ef; [|exact Hin2]. cbn in Ef.
        rewrite Hl2, Ho2, <- Hx, N.eqb_refl in Ef. discriminate.
  Qed.

  (* ---- clientIncarnationState.emptyAndRemove, enter() -------------------------------- *)
  Lemma acct_lofs_nodup : forall st c, acct_inv st -> In c (st_clients st) ->
    NoDup (map of_other (c_oofs c)) /\ lofs_nodup c.
  Proof.
    intros st c [_ [_ [I3 _]]] Hc. destruct (I3 c Hc) as [N1 [N2 _]]. split; [exact N1|].
    intros o Ho. destruct (N2 o Ho) as [_ [_ [_ N3]]]. exact N3.
  Qed.

  Lemma empty_and_remove_view : forall st id c,
    acct_inv st -> find_client id (st_clients st) = Some c ->
    vpath Q (view st) (view (fst (empty_and_remove id st))).
  Proof.
    intros st id c I Hf. unfold empty_and_remove. rewrite Hf.
    pose proof (find_client_id _ _ _ Hf) as Hcid.
    assert (Hcin : In c (st_clients st)) by (rewrite find_client_k in Hf; eapply kfind_in; eauto).
    destruct (oofs_remove_all (live_others c) c (st_pool st)) as [[[c1 pool1] outs] pn] eqn:Er. cbn [fst].
    destruct (acct_lofs_nodup st c I Hcin) as [Hoo Hln].
    pose proof (acct_vwf st I) as [W1 _]. cbn [view v_cls] in W1.
    assert (Hfc : kfind vc_id (c_id c) (map vc (st_clients st)) = Some (vc c)) by (apply vfind_client; rewrite Hcid; exact Hf).
    destruct (oofs_remove_all_view _ _ (st_nextlo st) _ _ _ _ _ _ Er W1 Hfc Hoo Hln) as [P [Hid1 Hlv]].
    match goal with |- vpath _ _ (view (client_remove id ?s0)) => set (s2 := s0) end.
    assert (Hk : find_client id (st_clients s2) = Some c1).
    { subst s2. cbn [st_clients set_sessions add_panic set_pool set_clients].
      rewrite find_client_k, upd_client_k, <- Hcid, <- Hid1. eapply (kfind_kupd_same c_id).
      rewrite Hid1, Hcid, <- find_client_k. exact Hf. }
    assert (Hv2 : view s2 = mkV (kupd vc_id (vc c1) (map vc (st_clients st))) pool1 (st_nextlo st)).
    { subst s2. unfold view. cbn [st_clients st_pool st_nextlo set_sessions add_panic set_pool set_clients].
      rewrite vc_upd_client. reflexivity. }
    eapply vpath_trans; [exact P|]. rewrite <- Hv2.
    (* the client record goes *)
    unfold client_remove. rewrite Hk.
    assert (Hdead : forall o, In o (vc_oofs (vc c1)) -> vo_live o = false).
    { intros o Ho. cbn [vc vc_oofs] in Ho. apply in_map_iff in Ho. destruct Ho as [o0 [<- Ho0]]. cbn [vo vo_live].
      destruct (of_live o0) eqn:El; [|reflexivity]. exfalso.
      destruct (Hlv o0 Ho0 El) as [Hni [o1 [Hin1 [Hl1 Ho1]]]]. apply Hni. rewrite <- Ho1.
      apply live_others_all; assumption. }
    pose proof (vt_del Q (view s2) (vc c1)) as T. cbn [vc_id vc] in T.
    assert (Hk2 : kfind vc_id (c_id c1) (v_cls (view s2)) = Some (vc c1)).
    { cbn [view v_cls]. apply vfind_client. rewrite Hid1, Hcid. exact Hk. }
    specialize (T Hk2 Hdead). apply vpath_one.
    match goal with |- vtr _ _ ?b => replace b with (mkV (kdel vc_id (c_id c1) (v_cls (view s2))) (v_pool (view s2)) (v_nextlo (view s2))); [exact T|] end.
    unfold view. cbn [st_clients st_pool st_nextlo set_idle set_clients add_panic v_cls v_pool v_nextlo].
    rewrite vc_del_client, Hid1, Hcid. reflexivity.
  Qed.

  Lemma expire_list_view : forall ids st,
    acct_inv st ->
    (forall id c, In id ids -> find_client id (st_clients st) = Some c -> c_hold c = 0) ->
    vpath Q (view st) (view (fst (expire_list ids st))).
  Proof.
    induction ids as [|id tl IH]; intros st I Hidle; cbn [expire_list]; [apply vp_refl|].
    destruct (expired st id) eqn:Ex; [|apply vp_refl].
    unfold expired in Ex. destruct (find_client id (st_clients st)) as [c|] eqn:Ef; [|discriminate].
    assert (Hh : c_hold c = 0) by (eapply Hidle; [left; reflexivity|exact Ef]).
    pose proof (empty_and_remove_goal st id c I Ef Hh) as [I1 _].
    pose proof (empty_and_remove_view st id c I Ef) as P1.
    pose proof (empty_and_remove_fields id st c (proj1 I) Ef) as [F1 _].
    destruct (empty_and_remove id st) as [st1 o1] eqn:Er. cbn [fst snd] in *.
    assert (Hidle1 : forall id2 c2, In id2 tl -> find_client id2 (st_clients st1) = Some c2 -> c_hold c2 = 0).
    { intros id2 c2 Hin H2. eapply Hidle; [right; exact Hin|]. rewrite F1 in H2.
      change (kfind c_id id2 (kdel c_id id (st_clients st)) = Some c2) in H2.
      destruct (N.eq_dec id2 id) as [->|Hne].
      - rewrite (kfind_kdel_same c_id) in H2. discriminate.
      - rewrite (kfind_kdel_other c_id) in H2 by exact Hne. exact H2. }
    pose proof (IH st1 I1 Hidle1) as P2. destruct (expire_list tl st1) as [st2 o2]. cbn [fst] in *.
    eapply vpath_trans; eauto.
  Qed.

  Lemma enter_view : forall st, acct_inv st -> vpath Q (view st) (view (fst (enter st))).
  Proof.
    intros st I. unfold enter.
    set (st1 := if st_now st <? st_clock st then set_now st (st_clock st) else st).
    assert (G1 : st_goal st st1 []).
    { subst st1. destruct (st_now st <? st_clock st); [apply acct_ext; auto|apply st_goal_same; exact I]. }
    assert (Hv : view st1 = view st) by (subst st1; destruct (st_now st <? st_clock st); reflexivity).
    assert (Hidle : forall id c, In id (st_idle st1) -> find_client id (st_clients st1) = Some c -> c_hold c = 0).
    { intros id c Hin Hf. destruct G1 as [[_ [_ [_ [_ Iok]]]] _]. destruct (Iok id Hin) as [c2 [Hc2 Hh]]. congruence. }
    rewrite <- Hv. apply expire_list_view; [exact (proj1 G1)|exact Hidle].
  Qed.

  Lemma enter_view' : forall st st' outs, acct_inv st -> enter st = (st', outs) -> vpath Q (view st) (view st').
  Proof. intros st st' outs I H. pose proof (enter_view st I) as P. rewrite H in P. exact P. Qed.
End Refine.
