(* Monitor link (NFSv4.1, C18): a predicate of Spec.v that Corr.v evaluates
   on the implementation's state dump after every step holds on the dump
   of every reachable state of the model.  The property theorems, and
   nothing else; proofs in Proofs2Monitor.v. *)
From VF Require Import Nfs41.Spec Nfs41.Proofs2Monitor Nfs41.Proofs2Monitor2 Nfs41.Proofs2Monitor3.
Local Open Scope string_scope.
Open Scope N_scope.

(* p_pool = C18:pool-entry-missing (every live open-owner file has a pool
   entry for its file handle) ;; C18:pool-usecount (useCount of every entry
   = number of open-owner files on that handle), evaluated on the canonical
   dump (clients, open-owner files and pool entries sorted by identifier)
   exactly as on the dumps of the verif hook VerifDump41. *)
Theorem monitor_pool_holds_on_model : forall cfg c0 evs,
  p_pool (dump_of (reachable cfg c0 evs)) = "".
Proof. exact p_pool_reachable. Qed.
Print Assumptions monitor_pool_holds_on_model.

(* Regression example for a false alarm of the monitor found while
   attempting the rest of the monitor link: with the first (non-injective)
   [Spec.owner_code], p_locks reported C20:table-not-wf on the dump of this
   model state (client 1 / lock-owner 3072 and client 4 / lock-owner 0 hold
   overlapping shared locks).  With the injective encoding it passes. *)
Theorem monitor_locks_accepts_large_owner_names :
  let st := reachable (mkConfig 4000 2 6) 1000 collide_events in
  st_panic st = false
  /\ map (fun p => map (fun k => (LS.lstart k, LS.lend k, LS.lowner k, LS.ltyp k)) (pf_locks p)) (st_pool st)
     = [[(0, 10, 2, LS.Shared); (0, 10, 1, LS.Shared)]]
  /\ p_locks [] (dump_of st) = "" /\ p_owner (dump_of st) = "".
Proof. exact p_locks_large_names. Qed.
Print Assumptions monitor_locks_accepts_large_owner_names.

(* p_owner (C20:owner-not-registered, C20:owner-filecount,
   C20:lock-owner-file-maps) and p_locks (C20:lockcount-mismatch,
   C20:negative-lockcount, C20:orphan-lock, C20:table-not-wf, C20:exclusion;
   for every trigger list T) hold on the dump of every reachable state of
   every valid, never-shared history (Proofs2Monitor2.v).  The parts of
   p_owner about lock-owner files, fileCount and the lock-owner file maps
   need no hypothesis (p_owner_lofs, p_owner_filecount, p_owner_nlofs). *)
Theorem monitor_owner_holds_on_model : forall cfg c0 evs,
  Forall event_valid evs -> never_shared (init cfg c0) evs ->
  p_owner (dump_of (reachable cfg c0 evs)) = "".
Proof. exact Proofs2Monitor2.p_owner_reachable. Qed.
Print Assumptions monitor_owner_holds_on_model.

Theorem monitor_locks_holds_on_model : forall cfg c0 evs,
  Forall event_valid evs -> never_shared (init cfg c0) evs ->
  forall T, p_locks T (dump_of (reachable cfg c0 evs)) = "".
Proof. exact Proofs2Monitor2.p_locks_reachable. Qed.
Print Assumptions monitor_locks_holds_on_model.

(* p_lease (C18:expired-client-retained, C18:idle-list, C18:orphan-session)
   holds on the dump of every reachable state, with the lease time of the
   configuration (no hypothesis). *)
Theorem monitor_lease_holds_on_model : forall cfg c0 evs,
  let st := reachable cfg c0 evs in p_lease (cf_lease (st_cfg st)) (dump_of st) = "".
Proof. exact Proofs2Monitor3.p_lease_reachable. Qed.
Print Assumptions monitor_lease_holds_on_model.
