(* Monitor link (NFSv4.1, C18): a predicate of Spec.v that Corr.v evaluates
   on the implementation's state dump after every step holds on the dump
   of every reachable state of the model.  The property theorems, and
   nothing else; proofs in Proofs2Monitor.v. *)
From VF Require Import Nfs41.Spec Nfs41.Proofs2Monitor.
Local Open Scope string_scope.
Open Scope N_scope.

(* p_pool = C18:pool-entry-missing (every live open-owner file has a pool
   entry for its file handle) ;; C18:pool-usecount (useCount of every entry
   = number of open-owner files on that handle), evaluated on the canonical
   dump (clients, open-owner files and pool entries sorted by identifier)
   exactly as on the dumps of the verif hook VerifDump41. *)
Theorem monitor_pool_holds_on_model : forall cfg c0 evs,
  p_pool (dump_of (reachable cfg c0 evs)) = "".
Proof. exact p_pool_reachable. Qed.
Print Assumptions monitor_pool_holds_on_model.
