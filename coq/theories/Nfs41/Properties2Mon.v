(* Monitor link (NFSv4.1, C18): a predicate of Spec.v that Corr.v evaluates
   on the implementation's state dump after every step holds on the dump
   of every reachable state of the model.  The property theorems, and
   nothing else; proofs in Proofs2Monitor.v. *)
From VF Require Import Nfs41.Spec Nfs41.Proofs2Monitor.
Local Open Scope string_scope.
Open Scope N_scope.

(* p_pool = C18:pool-entry-missing (every live open-owner file has a pool
   entry for its file handle) ;; C18:pool-usecount (useCount of every entry
   = number of open-owner files on that handle), evaluated on the canonical
   dump (clients, open-owner files and pool entries sorted by identifier)
   exactly as on the dumps of the verif hook VerifDump41. *)
Theorem monitor_pool_holds_on_model : forall cfg c0 evs,
  p_pool (dump_of (reachable cfg c0 evs)) = "".
Proof. exact p_pool_reachable. Qed.
Print Assumptions monitor_pool_holds_on_model.

(* Full statement wanted: forall evs, p_inv lease [] (observation of the
   reachable state) = "".  It is false of the model for a reason that lies
   in the monitor, not in the code: Spec.owner_code is not injective, so two
   clients whose lock-owner names collide under it (client 1 / owner 3072,
   client 4 / owner 0) and who hold overlapping shared locks make p_locks
   report C20:table-not-wf on a state without panic whose table is well
   formed.  (The harness only generates small lock-owner names.) *)
Theorem monitor_locks_refuted_for_large_owner_names :
  let st := reachable (mkConfig 4000 2 6) 1000 collide_events in
  st_panic st = false
  /\ map (fun p => map (fun k => (LS.lstart k, LS.lend k, LS.lowner k, LS.ltyp k)) (pf_locks p)) (st_pool st)
     = [[(0, 10, 2, LS.Shared); (0, 10, 1, LS.Shared)]]
  /\ p_locks [] (dump_of st) = "C20:table-not-wf".
Proof. exact p_locks_refuted. Qed.
Print Assumptions monitor_locks_refuted_for_large_owner_names.
