(* C18, lease rule of the NFSv4.1 program: "the client was removed only
   after its lease lapsed" judged WITHOUT the implementation's own
   lastSeen field.

   [Spec.p_retained] ("C18:client-removed-unjustified") reads [dc_seen]
   from the dump, so a request that stops renewing the lease is only a
   dump mismatch.  This file is a separate monitor with its own
   bookkeeping, fed by the requests and replies of the trace:

     lm_clock : the injected clock (start value + every HAdvance);
     lm_heard : client id -> time the client was last heard of;
     lm_fly   : SEQUENCE compounds accepted but not yet answered
                (parked in the file system), with their client.

   What renews the lease (nfs41_program.go; only what certainly renews is
   counted, since counting too much would be a false alarm):
     - EXCHANGE_ID creating the incarnation (insertIntoIdleList stamps
       lastSeen): seen here as "the client id appears in the dump";
     - CREATE_SESSION with the next sequence number (hold + deferred
       release in the same critical section) answered with a session;
     - SEQUENCE starting a new sequence on a free slot of a session of
       the client: hold() for the whole compound, lastSeen stamped by
       release() at the end.  The monitor records the clock reading at
       the start (<= what release stamps) and again at the reply.
   Retransmissions answered from the slot / CREATE_SESSION cache,
   misordered or in-flight duplicate requests, DESTROY_SESSION,
   BIND_CONN_TO_SESSION, EXCHANGE_ID of a known incarnation do not renew
   in the code and are not counted.  Slot numbers / sequence numbers /
   session -> client are resolved through the PRE-state dump (as
   Spec.p_sequence and Spec.p_create_session do); [dc_seen] and
   [dc_hold] are never read.

   Rule, for every client of the pre-state dump absent afterwards:
     (1) it has no compound in flight   else C18:client-expired-during-io
     (2) it is replaced / destroyed by this request ([Spec.mentions_client])
         or  heard + lease < clock      else C18:client-expired-within-lease *)
From VF Require Export Nfs41.Spec.
Local Open Scope string_scope.
Open Scope N_scope.

Record lfly := mkLFly { ly_tid : N; ly_client : N; ly_ops : list op }.
Record lmon := mkLmon {
  lm_clock : N;
  lm_heard : list (N * N);
  lm_fly : list lfly }.
Definition lmon_init (clock0 : N) : lmon := mkLmon clock0 [] [].

Definition heard_of (L : lmon) (cid : N) : option N :=
  match find (fun p => fst p =? cid) (lm_heard L) with Some p => Some (snd p) | None => None end.
Definition heard_touch (cid t : N) (l : list (N * N)) : list (N * N) :=
  map (fun p => if fst p =? cid then (cid, t) else p) l.

Definition clock_after (L : lmon) (h : hop) : N :=
  match h with HAdvance d => lm_clock L + d | _ => lm_clock L end.

(* The operations of the request a step runs (for the justification of a removal). *)
Definition lstep_ops (L : lmon) (h : hop) : list op :=
  match h with
  | HSolo _ (SCreateSession c s) => [OCreateSession c s]
  | HSolo _ (SDestroyClientid c) => [ODestroyClientid c]
  | HSeq _ _ _ _ _ ops _ => ops
  | HResume t => match find (fun f => ly_tid f =? t) (lm_fly L) with
                 | Some f => ly_ops f | None => [] end
  | _ => []
  end.

Definition in_flight_of (L : lmon) (cid : N) : bool :=
  existsb (fun f => ly_client f =? cid) (lm_fly L).

Definition lease_check (lease : N) (L : lmon) (pre : dump) (s : hstep) : string :=
  let clock' := clock_after L (hs_op s) in
  let ops := lstep_ops L (hs_op s) in
  all_ok (fun c =>
    match find_dclient (dc_id c) (hs_dump s) with
    | Some _ => ""
    | None =>
      if in_flight_of L (dc_id c) then "C18:client-expired-during-io"
      else if mentions_client ops pre (dc_owner c) (dc_id c) then ""
      else match heard_of L (dc_id c) with
           | Some t => check (t + lease <? clock') "C18:client-expired-within-lease"
           | None => ""
           end
    end) (d_clients pre).

(* A SEQUENCE request that starts a new sequence on a free slot: the client it holds. *)
Definition seq_accepted (pre : dump) (sess sl sq : N) : option N :=
  match find_dsession sess pre with
  | Some ss =>
    match nth_error (dss_slots ss) (N.to_nat sl) with
    | Some slot => if (sq =? (ds_seq slot + 1) mod u32) && negb (ds_busy slot)
                   then Some (dss_client ss) else None
    | None => None
    end
  | None => None
  end.

(* CREATE_SESSION with the next sequence number of a known client. *)
Definition cs_accepted (pre : dump) (cid sq : N) : bool :=
  match find_dclient cid pre with
  | Some c => sq =? (dc_seq c + 1) mod u32
  | None => false
  end.

Definition has_reply (tid : N) (s : hstep) : bool :=
  match reply_of tid s with Some _ => true | None => false end.

Definition lease_update (L : lmon) (pre : dump) (s : hstep) : lmon :=
  let clock' := clock_after L (hs_op s) in
  (* clients of the post-state: known ones keep their time, new ones were heard of now *)
  let heard0 := map (fun c => (dc_id c, match heard_of L (dc_id c) with Some t => t | None => clock' end))
                    (d_clients (hs_dump s)) in
  (* the request of this step *)
  let '(heard1, fly1) :=
    match hs_op s with
    | HSolo tid (SCreateSession cid sq) =>
      match reply_of tid s with
      | Some r => match cr_res r with
                  | [RCreateSession _ _] =>
                    if cs_accepted pre cid sq then (heard_touch cid clock' heard0, lm_fly L)
                    else (heard0, lm_fly L)
                  | _ => (heard0, lm_fly L)
                  end
      | None => (heard0, lm_fly L)
      end
    | HSeq tid sess sl sq _ ops _ =>
      match seq_accepted pre sess sl sq with
      | Some cid =>
        match reply_of tid s with
        | Some r => if executed r then (heard_touch cid clock' heard0, lm_fly L) else (heard0, lm_fly L)
        | None =>
          if existsb (N.eqb tid) (hs_blocked s) || existsb (N.eqb tid) (hs_hung s)
             || existsb (N.eqb tid) (hs_panics s)
          then (heard0, lm_fly L)
          else (heard_touch cid clock' heard0, (lm_fly L ++ [mkLFly tid cid ops])%list)
        end
      | None => (heard0, lm_fly L)
      end
    | _ => (heard0, lm_fly L)
    end in
  (* compounds in flight that were answered in this step: release() stamps the clock *)
  let heard2 :=
    fold_left (fun h f => match reply_of (ly_tid f) s with
                          | Some r => if executed r then heard_touch (ly_client f) clock' h else h
                          | None => h
                          end) (lm_fly L) heard1 in
  mkLmon clock' heard2
         (filter (fun f => negb (has_reply (ly_tid f) s) && negb (existsb (N.eqb (ly_tid f)) (hs_panics s))) fly1).

Fixpoint lease_from (lease : N) (i : nat) (L : lmon) (pre : dump) (steps : list hstep)
    : option (nat * string) :=
  match steps with
  | [] => None
  | s :: tl =>
    match hs_panics s with
    | _ :: _ => None      (* the state can no longer be observed; Spec.p_step reports the panic *)
    | [] =>
      let k := lease_check lease L pre s in
      if ok k then lease_from lease (S i) (lease_update L pre s) (hs_dump s) tl else Some (i, k)
    end
  end.

Definition lease_case (cfg : config) (clock0 : N) (steps : list hstep) : option (nat * string) :=
  lease_from (cf_lease cfg) 0 (lmon_init clock0) empty_dump steps.

Definition lease_trace_ok (cfg : config) (clock0 : N) (steps : list hstep) : bool :=
  match lease_case cfg clock0 steps with None => true | Some _ => false end.
