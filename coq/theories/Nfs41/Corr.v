(* Correspondence evaluator for the NFSv4.1 area: runs the model on the
   history the harness ran on nfs41Program and compares every observable
   (mismatch), and evaluates the property predicates of Spec.v on the
   implementation's own observations (violation). *)
From VF Require Import Common.Verdict.
From VF Require Export Nfs41.Spec Nfs41.SpecLease.
Local Open Scope string_scope.
Open Scope list_scope.
Open Scope N_scope.

(* ---- the model at harness-step granularity ------------------------------ *)
Record mstate := mkM {
  ms_st : state;
  ms_plans : list (N * list bool);     (* remaining park plan per compound in flight *)
  ms_leaves : list leafcnt }.

Definition bump (m : mask) (v : Z * Z) : Z * Z :=
  ((if mr m then fst v + 1 else fst v)%Z, (if mw m then snd v + 1 else snd v)%Z).

Fixpoint leaf_add (h : N) (m : mask) (isopen : bool) (l : list leafcnt) : list leafcnt :=
  match l with
  | [] => let '(r, w) := bump m (0, 0)%Z in
          [if isopen then mkLeafCnt h r w 0 0 else mkLeafCnt h 0 0 r w]
  | x :: tl =>
    if lc_h x =? h then
      (if isopen
       then let '(r, w) := bump m (lc_or x, lc_ow x) in mkLeafCnt h r w (lc_cr x) (lc_cw x)
       else let '(r, w) := bump m (lc_cr x, lc_cw x) in mkLeafCnt h (lc_or x) (lc_ow x) r w) :: tl
    else x :: leaf_add h m isopen tl
  end.

Fixpoint apply_outs (outs : list out) (lv : list leafcnt) (rs : list (N * creply))
    : list leafcnt * list (N * creply) :=
  match outs with
  | [] => (lv, rs)
  | OReply t r :: tl => apply_outs tl lv (rs ++ [(t, r)])
  | OLeafOpen h m :: tl => apply_outs tl (leaf_add h m true lv) rs
  | OLeafClose h m :: tl => apply_outs tl (leaf_add h m false lv) rs
  end.

(* Run compound [tid] until it returns or parks.  The last component is
   set when the model wants a file system result the implementation did
   not produce. *)
Fixpoint hrun (fuel : nat) (st : state) (tid : N) (plan : list bool) (orcs : list fsres)
    (acc : list out) : state * list bool * list fsres * list out * bool :=
  match fuel with
  | O => (st, plan, orcs, acc, false)
  | S f =>
    match find_thread tid (st_threads st) with
    | None => (st, plan, orcs, acc, false)
    | Some _ =>
      let '(st1, outs, use) := section tid (hd FsOk orcs) st in
      let short := match orcs with [] => true | _ => false end in
      match use with
      | FsNone => hrun f st1 tid plan orcs (acc ++ outs)
      | FsQuiet => if short then (st1, plan, orcs, acc ++ outs, true)
                   else hrun f st1 tid plan (tl orcs) (acc ++ outs)
      | FsCall => if short then (st1, plan, orcs, acc ++ outs, true)
                  else if hd false plan then (st1, tl plan, tl orcs, acc ++ outs, false)
                  else hrun f st1 tid (tl plan) (tl orcs) (acc ++ outs)
      end
    end
  end.

Definition plan_of (tid : N) (l : list (N * list bool)) : list bool :=
  match find (fun x => fst x =? tid) l with Some x => snd x | None => [] end.
Definition set_plan (tid : N) (p : list bool) (l : list (N * list bool)) :=
  (tid, p) :: filter (fun x => negb (fst x =? tid)) l.

(* One harness step on the model: new state, outputs, leftover oracles, underrun. *)
Definition mstep (m : mstate) (h : hop) (orcs : list fsres)
    : mstate * list out * list fsres * bool :=
  match h with
  | HAdvance d =>
    let '(st1, outs) := step (ms_st m) (EAdvance d) in
    (mkM st1 (ms_plans m) (ms_leaves m), outs, orcs, false)
  | HSolo tid s =>
    let '(st1, outs) := step (ms_st m) (ESolo tid s) in
    (mkM st1 (ms_plans m) (ms_leaves m), outs, orcs, false)
  | HSeq tid sess sl sq cache ops plan =>
    let '(st1, outs1) := step (ms_st m) (ESeqBegin tid sess sl sq cache ops) in
    let '(st2, plan2, orcs2, outs2, short) := hrun 64 st1 tid plan orcs outs1 in
    (mkM st2 (set_plan tid plan2 (ms_plans m)) (ms_leaves m), outs2, orcs2, short)
  | HResume tid =>
    let '(st2, plan2, orcs2, outs2, short) :=
      hrun 64 (ms_st m) tid (plan_of tid (ms_plans m)) orcs [] in
    (mkM st2 (set_plan tid plan2 (ms_plans m)) (ms_leaves m), outs2, orcs2, short)
  end.

(* ---- comparison --------------------------------------------------------- *)
Definition reply_eqb (a b : N * creply) := (fst a =? fst b) && creply_eqb (snd a) (snd b).
Definition mask_eqb := m_eqb.
Definition flight_eqb (a b : flight) :=
  match a, b with
  | FlOpen h1 m1, FlOpen h2 m2 => (h1 =? h2) && m_eqb m1 m2
  | FlReg h1 m1, FlReg h2 m2 => (h1 =? h2) && m_eqb m1 m2
  | _, _ => false
  end.
Definition leafcnt_eqb (a b : leafcnt) :=
  (lc_h a =? lc_h b) && (lc_or a =? lc_or b)%Z && (lc_ow a =? lc_ow b)%Z
  && (lc_cr a =? lc_cr b)%Z && (lc_cw a =? lc_cw b)%Z.
Definition leaf_lookup (h : N) (l : list leafcnt) : leafcnt :=
  match find (fun x => lc_h x =? h) l with Some x => x | None => mkLeafCnt h 0 0 0 0 end.
(* The implementation lists every leaf ever created; the model only those
   that were opened. *)
Definition leaves_agree (impl model : list leafcnt) : bool :=
  forallb (fun x => leafcnt_eqb x (leaf_lookup (lc_h x) model)) impl
  && forallb (fun x => existsb (fun y => lc_h y =? lc_h x) impl) model.

Definition waiters_of (st : state) : list N :=
  sort_by (fun x => x) (flat_map t_waiters (st_threads st)).

Definition dump_diff (a b : dump) : string :=
  if negb (d_now a =? d_now b) then "dump-now"
  else if negb (list_eqb d_client_eqb (d_clients a) (d_clients b)) then "dump-clients"
  else if negb (list_eqb N.eqb (d_idle a) (d_idle b)) then "dump-idle"
  else if negb (list_eqb d_session_eqb (d_sessions a) (d_sessions b)) then "dump-sessions"
  else if negb (list_eqb d_pfile_eqb (d_pool a) (d_pool b)) then "dump-pool"
  else "".

Definition compare_step (m' : mstate) (lv : list leafcnt) (rs : list (N * creply))
    (lefto : list fsres) (short : bool) (s : hstep) : string :=
  if short then "oracle-underrun"
  else if match lefto with [] => false | _ => true end then "oracle-leftover"
  else if match hs_panics s with [] => false | _ => true end then "panic"
  else if match hs_hung s with [] => false | _ => true end then "hung"
  else if negb (list_eqb reply_eqb (sort_by fst rs) (hs_replies s)) then "replies"
  else if negb (list_eqb N.eqb (waiters_of (ms_st m')) (hs_blocked s)) then "blocked"
  else if negb (leaves_agree (hs_leaves s) lv) then "leaf-calls"
  else if negb (list_eqb flight_eqb (flight_of (ms_st m')) (hs_flight s)) then "flight"
  else if st_panic (ms_st m') then "model-panic"
  else dump_diff (dump_of (ms_st m')) (hs_dump s).

Fixpoint mism_from (i : nat) (m : mstate) (steps : list hstep) : verdict :=
  match steps with
  | [] => VOk
  | s :: tl =>
    let '(m1, outs, lefto, short) := mstep m (hs_op s) (hs_orcs s) in
    let '(lv, rs) := apply_outs outs (ms_leaves m1) [] in
    let m2 := mkM (ms_st m1) (ms_plans m1) lv in
    (* Where the Go code panics the model sets its panic flag; both stop there. *)
    if st_panic (ms_st m1) then
      match hs_panics s with [] => VMismatch i "model-panic" | _ => VOk end
    else
    let d := compare_step m2 lv rs lefto short s in
    if String.eqb d "" then mism_from (S i) m2 tl else VMismatch i d
  end.

Definition check_case (c : case) : verdict :=
  vcombine (vcombine (match p_case (cs_cfg c) (cs_steps c) with
                      | Some (i, k) => VViolation i k
                      | None => VOk
                      end)
                     (* the independent lease monitor (SpecLease.v) *)
                     (match lease_case (cs_cfg c) (cs_clock0 c) (cs_steps c) with
                      | Some (i, k) => VViolation i k
                      | None => VOk
                      end))
           (mism_from 0 (mkM (init (cs_cfg c) (cs_clock0 c)) [] []) (cs_steps c)).

(* Debugging aid: the model's observations at the first disagreeing step. *)
Fixpoint debug_from (i : nat) (m : mstate) (steps : list hstep)
    : option (nat * string * hstep * list (N * creply) * list leafcnt * list flight * dump) :=
  match steps with
  | [] => None
  | s :: tl =>
    let '(m1, outs, lefto, short) := mstep m (hs_op s) (hs_orcs s) in
    let '(lv, rs) := apply_outs outs (ms_leaves m1) [] in
    let m2 := mkM (ms_st m1) (ms_plans m1) lv in
    let d := compare_step m2 lv rs lefto short s in
    if String.eqb d "" then debug_from (S i) m2 tl
    else Some (i, d, s, sort_by fst rs, lv, flight_of (ms_st m2), dump_of (ms_st m2))
  end.
Definition debug_case (c : case) :=
  debug_from 0 (mkM (init (cs_cfg c) (cs_clock0 c)) [] []) (cs_steps c).
