(* Consequences of the accounting invariant, state ID scope, and the
   lock-related facts of the NFSv4.1 model that need no invariant. *)
From VF Require Export Nfs41.ProofsAcctMain.
Open Scope N_scope.

Definition reachable (cfg : config) (c0 : N) (evs : list event) : state := fst (run (init cfg c0) evs).
Definition outputs (cfg : config) (c0 : N) (evs : list event) : list out := snd (run (init cfg c0) evs).

(* ---- C18 ------------------------------------------------------------------------------ *)
Lemma closes_le_opens : forall cfg c0 evs h b, (0 <= balance h b (outputs cfg c0 evs))%Z.
Proof. intros. unfold outputs. rewrite balance_is_holders. apply holders_nonneg. Qed.

Lemma holders_ge_oofs : forall st c o h b,
  In c (st_clients st) -> In o (c_oofs c) -> of_handle o = h -> (ind b o <= holders st h b)%Z.
Proof.
  intros st c o h b Hc Ho Hh. unfold holders.
  pose proof (countz_nonneg (t_opens h b) (st_threads st)).
  assert (hind h b o <= cl_ind h b c)%Z.
  { rewrite cl_ind_hind. apply (sumz_in_le (hind h b)); [|exact Ho].
    intros y _. unfold hind. destruct (of_handle y =? h); [apply ind_01|lia]. }
  assert (cl_ind h b c <= sumz (cl_ind h b) (st_clients st))%Z.
  { apply (sumz_in_le (cl_ind h b)); [|exact Hc]. intros; apply cl_ind_nonneg. }
  unfold hind in H0. rewrite Hh, N.eqb_refl in H0. lia.
Qed.

(* The share count of every open-owner file is exactly: its own share
   reservation, those of its lock-owner files, and the I/O in flight on it. *)
Lemma share_count_exact : forall cfg c0 evs c o b,
  In c (st_clients (reachable cfg c0 evs)) -> In o (c_oofs c) ->
  Z.of_N (cnt b o) = (b2z (of_live o && bit b (of_share o)) + lofs_bits b (of_lofs o)
                      + clones (reachable cfg c0 evs) (c_id c) (of_other o) b)%Z.
Proof.
  intros cfg c0 evs c o b Hc Ho. destruct (reachable_full_inv cfg c0 evs) as [[_ [_ [Cok _]]] _].
  destruct (Cok c Hc) as [_ [O1 _]]. destruct (O1 o Ho) as [_ [S1 _]]. apply S1.
Qed.

(* While an open state ID entitles the client to an access bit, the leaf
   is open for it. *)
Lemma open_while_entitled : forall cfg c0 evs c o b,
  In c (st_clients (reachable cfg c0 evs)) -> In o (c_oofs c) ->
  of_live o = true -> bit b (of_share o) = true ->
  (1 <= balance (of_handle o) b (outputs cfg c0 evs))%Z.
Proof.
  intros cfg c0 evs c o b Hc Ho Hl Hb. unfold outputs. rewrite balance_is_holders.
  pose proof (share_count_exact cfg c0 evs c o b Hc Ho) as S. rewrite Hl, Hb in S. cbn [andb b2z] in S.
  pose proof (lofs_bits_nonneg b (of_lofs o)). pose proof (countz_nonneg (t_clones (c_id c) (of_other o) b) (st_threads (reachable cfg c0 evs))).
  unfold clones in S.
  assert (E : ind b o = 1%Z) by (unfold ind; assert (0 <? cnt b o = true) by (apply N.ltb_lt; lia); rewrite H1; reflexivity).
  pose proof (holders_ge_oofs (reachable cfg c0 evs) c o (of_handle o) b Hc Ho eq_refl). unfold reachable in *. lia.
Qed.

(* ... also while a lock state ID established under that access does. *)
Lemma open_while_lock_state : forall cfg c0 evs c o lf b,
  In c (st_clients (reachable cfg c0 evs)) -> In o (c_oofs c) -> In lf (of_lofs o) ->
  bit b (lf_share lf) = true ->
  (1 <= balance (of_handle o) b (outputs cfg c0 evs))%Z.
Proof.
  intros cfg c0 evs c o lf b Hc Ho Hlf Hb. unfold outputs. rewrite balance_is_holders.
  pose proof (share_count_exact cfg c0 evs c o b Hc Ho) as S.
  assert (1 <= lofs_bits b (of_lofs o))%Z.
  { assert (b2z (bit b (lf_share lf)) <= lofs_bits b (of_lofs o))%Z.
    { unfold lofs_bits. apply (sumz_in_le (fun x => b2z (bit b (lf_share x)))); [|exact Hlf]. intros; apply b2z_01. }
    rewrite Hb in H. exact H. }
  pose proof (b2z_01 (of_live o && bit b (of_share o))).
  pose proof (countz_nonneg (t_clones (c_id c) (of_other o) b) (st_threads (reachable cfg c0 evs))).
  unfold clones in S.
  assert (E : ind b o = 1%Z) by (unfold ind; assert (0 <? cnt b o = true) by (apply N.ltb_lt; lia); rewrite H2; reflexivity).
  pose proof (holders_ge_oofs (reachable cfg c0 evs) c o (of_handle o) b Hc Ho eq_refl). unfold reachable in *. lia.
Qed.

(* ... and while a request that opened the leaf itself is in flight. *)
Lemma open_while_in_flight : forall cfg c0 evs t h b,
  In t (st_threads (reachable cfg c0 evs)) -> t_opens h b t = true ->
  (1 <= balance h b (outputs cfg c0 evs))%Z.
Proof.
  intros cfg c0 evs t h b Ht Ho. unfold outputs. rewrite balance_is_holders. unfold holders.
  assert (0 <= sumz (cl_ind h b) (st_clients (fst (run (init cfg c0) evs))))%Z
    by (apply sumz_nonneg; intros; apply cl_ind_nonneg).
  pose proof (countz_pos_in (t_opens h b) _ t Ht Ho). unfold reachable in *. lia.
Qed.

(* Once nothing is held any more -- no open-owner file with a positive
   share count (all closed / freed / expired), no request in flight --
   every leaf has been closed as often as it was opened. *)
Lemma all_closed_when_nothing_held : forall cfg c0 evs,
  (forall c o, In c (st_clients (reachable cfg c0 evs)) -> In o (c_oofs c) ->
               of_readers o = 0 /\ of_writers o = 0) ->
  st_threads (reachable cfg c0 evs) = [] ->
  forall h b, balance h b (outputs cfg c0 evs) = 0%Z.
Proof.
  intros cfg c0 evs Hz Ht h b. unfold outputs. rewrite balance_is_holders. unfold holders, reachable in *.
  rewrite Ht. cbn.
  rewrite (sumz_ext _ (fun _ => 0%Z)); [rewrite sumz_zero; reflexivity|].
  intros c Hc. rewrite cl_ind_hind. rewrite (sumz_ext _ (fun _ => 0%Z)); [apply sumz_zero|].
  intros o Ho. destruct (Hz c o Hc Ho) as [Hr Hw]. unfold hind, ind, cnt.
  destruct (of_handle o =? h); [|reflexivity]. destruct b; [rewrite Hr|rewrite Hw]; reflexivity.
Qed.

Lemma no_state_all_closed : forall cfg c0 evs,
  st_clients (reachable cfg c0 evs) = [] -> st_threads (reachable cfg c0 evs) = [] ->
  forall h b, balance h b (outputs cfg c0 evs) = 0%Z.
Proof.
  intros cfg c0 evs Hc Ht. apply all_closed_when_nothing_held; [|exact Ht].
  intros c o Hin. rewrite Hc in Hin. contradiction.
Qed.

(* No panic of the share count bookkeeping is reachable: every decrement
   finds a positive count.  (The model's panic flag also covers lock
   counts; see the C20 file.) *)

(* ---- state ID scope --------------------------------------------------------------------- *)
Lemma compare_seq_ok : forall given current, compare_seq given current = NFS4_OK -> given = 0 \/ given = current.
Proof.
  intros g c H. unfold compare_seq in H.
  destruct ((g =? 0) || (g =? c)) eqn:E.
  - apply Bool.orb_true_iff in E. destruct E as [E|E]; apply N.eqb_eq in E; auto.
  - destruct (_ && _); discriminate.
Qed.

(* An open state ID is honoured only for an open-owner file of the
   client itself that is still open, for the file handle it was issued
   for, with the current (or wildcard) sequence number. *)
Lemma open_stateid_scope : forall c cfh s w o,
  NoDup (map of_other (c_oofs c)) ->
  get_oofs c cfh s w = (Some o, NFS4_OK) ->
  In o (c_oofs c) /\ of_live o = true
  /\ ((s = sid_current /\ f_other cfh = of_other o /\ (w = true -> f_seq cfh = of_seq o))
      \/ (s_hi s = 0 /\ s_lo s = of_other o /\ fh_handle cfh = of_handle o
          /\ (s_seq s = 0 \/ s_seq s = of_seq o))).
Proof.
  intros c cfh s w o Hnd H.
  destruct (get_oofs_some _ _ _ _ _ _ Hnd H) as [Hfo Hl].
  assert (Hin : In o (c_oofs c)) by (rewrite find_oofs_any_k in Hfo; apply kfind_some in Hfo; tauto).
  split; [exact Hin|]. split; [exact Hl|].
  unfold get_oofs in H. destruct (negb (fh_set cfh)); [discriminate|].
  destruct (sid_eqb s sid_current) eqn:Ec.
  - left. destruct (find_oofs (f_other cfh) (c_oofs c)) as [o1|] eqn:Ef; [|discriminate].
    destruct (w && negb (f_seq cfh =? of_seq o1)) eqn:Ew; [discriminate|]. inversion H; subst o1.
    split.
    + unfold sid_eqb in Ec. destruct s as [a b0 c1]. cbn in Ec.
      apply Bool.andb_true_iff in Ec. destruct Ec as [Ec E3]. apply Bool.andb_true_iff in Ec. destruct Ec as [E1 E2].
      apply N.eqb_eq in E1, E2, E3. cbn in *. subst. reflexivity.
    + split.
      * apply find_some in Ef. destruct Ef as [_ Ep]. apply Bool.andb_true_iff in Ep. destruct Ep as [_ Ep].
        apply N.eqb_eq in Ep. auto.
      * intros ->. cbn in Ew. apply Bool.negb_false_iff, N.eqb_eq in Ew. exact Ew.
  - right. destruct (negb (s_hi s =? 0)) eqn:Eh; [discriminate|].
    apply Bool.negb_false_iff, N.eqb_eq in Eh.
    destruct (find_oofs (s_lo s) (c_oofs c)) as [o1|] eqn:Ef; [|discriminate].
    destruct (negb (fh_handle cfh =? of_handle o1)) eqn:Ehd; [discriminate|]. inversion H; subst o1.
    apply Bool.negb_false_iff, N.eqb_eq in Ehd.
    split; [exact Eh|]. split.
    + apply find_some in Ef. destruct Ef as [_ Ep]. apply Bool.andb_true_iff in Ep. destruct Ep as [_ Ep].
      apply N.eqb_eq in Ep. auto.
    + split; [exact Ehd|]. apply compare_seq_ok. assumption.
Qed.

Lemma lock_stateid_scope : forall c cfh s o lf,
  get_lofs c cfh s = (Some (o, lf), NFS4_OK) ->
  In o (c_oofs c) /\ of_live o = true /\ In lf (of_lofs o)
  /\ ((s = sid_current /\ f_other cfh = lf_other lf)
      \/ (s_hi s = 0 /\ s_lo s = lf_other lf /\ fh_handle cfh = of_handle o
          /\ (s_seq s = 0 \/ s_seq s = lf_seq lf))).
Proof.
  intros c cfh s o lf H.
  destruct (get_lofs_some _ _ _ _ _ _ H) as [Hin [Hl Hlf]].
  split; [exact Hin|]. split; [exact Hl|]. split; [exact Hlf|].
  unfold get_lofs in H. destruct (negb (fh_set cfh)); [discriminate|].
  destruct (sid_eqb s sid_current) eqn:Ec.
  - left. destruct (find_lofs (f_other cfh) (c_oofs c)) as [[o1 lf1]|] eqn:Ef; [|discriminate].
    inversion H; subst o1 lf1. split.
    + unfold sid_eqb in Ec. destruct s as [a b0 c1]. cbn in Ec.
      apply Bool.andb_true_iff in Ec. destruct Ec as [Ec E3]. apply Bool.andb_true_iff in Ec. destruct Ec as [E1 E2].
      apply N.eqb_eq in E1, E2, E3. cbn in *. subst. reflexivity.
    + apply find_lofs_some in Ef. symmetry. tauto.
  - right. destruct (negb (s_hi s =? 0)) eqn:Eh; [discriminate|].
    apply Bool.negb_false_iff, N.eqb_eq in Eh.
    destruct (find_lofs (s_lo s) (c_oofs c)) as [[o1 lf1]|] eqn:Ef; [|discriminate].
    destruct (negb (fh_handle cfh =? of_handle o1)) eqn:Ehd; [discriminate|]. inversion H; subst o1 lf1.
    apply Bool.negb_false_iff, N.eqb_eq in Ehd.
    split; [exact Eh|]. split; [apply find_lofs_some in Ef; symmetry; tauto|].
    split; [exact Ehd|]. apply compare_seq_ok. assumption.
Qed.

(* ---- C20 through the NFS layer ----------------------------------------------------------- *)
(* FREE_STATEID of a lock state ID with locks held: NFS4ERR_LOCKS_HELD,
   nothing changes (no panic). *)
Lemma free_stateid_locks_held : forall s c st cfh sfh o lf,
  s_hi s = 0 -> find_lofs (s_lo s) (c_oofs c) = Some (o, lf) ->
  compare_seq (s_seq s) (lf_seq lf) = NFS4_OK -> (0 < lf_count lf)%Z ->
  op_free_stateid s c st cfh sfh = done st cfh sfh (RStatus OP_FREE_STATEID ERR_LOCKS_HELD).
Proof.
  intros s c st cfh sfh o lf Hh Hf Hc Hp. unfold op_free_stateid.
  rewrite Hh, Hf, Hc. cbn. apply Z.ltb_lt in Hp. rewrite Hp. reflexivity.
Qed.

(* LOCKT and LOCK consult the table with the same owner identity, so
   LOCKT reports exactly the conflict LOCK would be denied for. *)
Lemma lockt_iff_lock : forall lt off len key c st cfh sfh o x,
  find_lowner_key key (c_lowners c) = Some x ->
  leaf_status cfh = NFS4_OK -> fh_handle cfh = of_handle o ->
  forall cf,
    (sr_step (op_lockt lt off len key c st cfh sfh) = Done (denied_of OP_LOCKT (st_clients st) cf)
     /\ exists s e ty, LS.offset_length_to_start_end off len = Some (s, e) /\ lock_type lt = Some ty
                       /\ LS.test (pool_locks (of_handle o) (st_pool st)) (LS.mkLock s e (lo_id x) ty) = Some cf)
    <->
    (sr_step (op_lock_run lt off len c st cfh sfh o (find (fun lf => lf_owner lf =? lo_id x) (of_lofs o)) (lo_id x) None)
       = Done (denied_of OP_LOCK (st_clients st) cf)
     /\ exists s e ty, LS.offset_length_to_start_end off len = Some (s, e) /\ lock_type lt = Some ty
                       /\ LS.test (pool_locks (of_handle o) (st_pool st)) (LS.mkLock s e (lo_id x) ty) = Some cf).
Proof.
  intros lt off len key c st cfh sfh o x Hx Hleaf Hh cf.
  unfold op_lockt, op_lock_run. rewrite Hleaf, Hx, Hh. cbn [negb N.eqb].
  change (NFS4_OK =? NFS4_OK) with true. cbn [negb].
  destruct (LS.offset_length_to_start_end off len) as [[s e]|].
  - destruct (lock_type lt) as [ty|].
    + destruct (LS.test (pool_locks (of_handle o) (st_pool st)) (LS.mkLock s e (lo_id x) ty)) as [cf'|] eqn:Et.
      * split; intros [H [s0 [e0 [ty0 [E1 [E2 E3]]]]]]; inversion E1; inversion E2; subst;
          rewrite Et in E3; inversion E3; subst; (split; [reflexivity|]); repeat eexists; eauto.
      * split; intros [_ [s0 [e0 [ty0 [E1 [E2 E3]]]]]]; inversion E1; inversion E2; subst; congruence.
    + split; intros [_ [s0 [e0 [ty0 [_ [E2 _]]]]]]; discriminate.
  - split; intros [_ [s0 [e0 [ty0 [E1 _]]]]]; discriminate.
Qed.

(* The conflict LOCKT / LOCK report is never a lock of the requesting
   lock-owner object itself. *)
Lemma denied_lock_has_other_owner : forall locks q cf,
  LS.test locks q = Some cf -> LS.lowner cf <> LS.lowner q.
Proof.
  induction locks as [|s tl IH]; intros q cf H; [discriminate|].
  cbn [LS.test] in H. destruct (LS.lend q <=? LS.lstart s); [discriminate|].
  destruct (negb (LS.lowner s =? LS.lowner q) && (LS.lstart q <? LS.lend s)
            && (LS.ltype_eqb (LS.ltyp s) LS.Exclusive || LS.ltype_eqb (LS.ltyp q) LS.Exclusive)) eqn:E.
  - inversion H; subst cf. apply Bool.andb_true_iff in E. destruct E as [E _].
    apply Bool.andb_true_iff in E. destruct E as [E _]. apply Bool.negb_true_iff, N.eqb_neq in E. exact E.
  - apply IH. exact H.
Qed.
