(* Second round of proofs about the NFSv4.1 model (pool useCount, lock
   owners, lock counts).  This file: a *view* of the model state that keeps
   exactly what these invariants talk about -- per client its open-owner
   files (other, handle, live) with their lock-owner files (other, owner
   object, lockCount) and lockOwnersByOwner; the opened-files pool; the
   lock-owner object counter -- and forgets share counts, sequence numbers,
   leases, sessions, slots and compounds in flight.  Everything that only
   touches the forgotten parts leaves the view unchanged. *)
From VF Require Export Nfs41.ProofsAcctMain.
Open Scope N_scope.

(* ---- more about keyed lists ------------------------------------------------ *)
Section KMap.
  Context {A B : Type} (key : A -> N) (key' : B -> N) (f : A -> B).
  Hypothesis Hkey : forall x, key' (f x) = key x.

  Lemma map_kupd : forall x' l, map f (kupd key x' l) = kupd key' (f x') (map f l).
  Proof.
    intros x' l. unfold kupd. rewrite !map_map. apply map_ext. intros x.
    rewrite !Hkey. destruct (key x =? key x'); reflexivity.
  Qed.

  Lemma map_kdel : forall k l, map f (kdel key k l) = kdel key' k (map f l).
  Proof.
    intros k l. unfold kdel. induction l as [|x l IH]; [reflexivity|]. cbn.
    rewrite Hkey. destruct (key x =? k); cbn; rewrite IH; reflexivity.
  Qed.

  Lemma kfind_map : forall k l, kfind key' k (map f l) = option_map f (kfind key k l).
  Proof.
    intros k l. unfold kfind. induction l as [|x l IH]; [reflexivity|]. cbn.
    rewrite Hkey. destruct (key x =? k); [reflexivity|exact IH].
  Qed.

  Lemma map_keys : forall l, map key' (map f l) = map key l.
  Proof. intros l. rewrite map_map. apply map_ext. exact Hkey. Qed.
End KMap.

Section KMore.
  Context {A : Type} (key : A -> N).

  Lemma kupd_same : forall l x, NoDup (map key l) -> kfind key (key x) l = Some x -> kupd key x l = l.
  Proof.
    intros l x. unfold kupd, kfind. induction l as [|y l IH]; intros Hnd Hf; [reflexivity|].
    cbn in Hnd. inversion Hnd as [|? ? Hni Hnd']; subst. cbn in *.
    destruct (key y =? key x) eqn:E.
    - injection Hf as ->. f_equal.
      clear IH Hnd Hnd'. induction l as [|z l IHl]; [reflexivity|]. cbn.
      destruct (key z =? key x) eqn:Ez.
      + exfalso. apply Hni. apply N.eqb_eq in Ez. left. exact Ez.
      + f_equal. apply IHl. intros Hin. apply Hni. right. exact Hin.
    - f_equal. apply IH; assumption.
  Qed.

  Lemma kupd_absent : forall l x', (forall y, In y l -> key y <> key x') -> kupd key x' l = l.
  Proof.
    intros l x' H. unfold kupd. induction l as [|y l IH]; [reflexivity|]. cbn.
    assert (E : key y =? key x' = false) by (apply N.eqb_neq; apply H; left; reflexivity).
    rewrite E. f_equal. apply IH. intros z Hz. apply H. right. exact Hz.
  Qed.

  Lemma kupd_app : forall x' l1 l2, kupd key x' (l1 ++ l2) = kupd key x' l1 ++ kupd key x' l2.
  Proof. intros. unfold kupd. apply map_app. Qed.

  Lemma kupd_snoc_fresh : forall l x x', key x' = key x -> (forall y, In y l -> key y <> key x) ->
    kupd key x' (l ++ [x]) = l ++ [x'].
  Proof.
    intros l x x' E H. rewrite kupd_app. rewrite kupd_absent by (intros y Hy; rewrite E; auto).
    unfold kupd. cbn. rewrite E, N.eqb_refl. reflexivity.
  Qed.

  Lemma kupd_kupd : forall l x' x'', key x'' = key x' -> kupd key x'' (kupd key x' l) = kupd key x'' l.
  Proof.
    intros l x' x'' E. unfold kupd. rewrite map_map. apply map_ext. intros y.
    destruct (key y =? key x') eqn:E1.
    - rewrite E, E1, N.eqb_refl. reflexivity.
    - reflexivity.
  Qed.

  Lemma kfind_in : forall k l x, kfind key k l = Some x -> In x l.
  Proof. intros k l x H. apply (kfind_some key) in H. tauto. Qed.

  Lemma kfind_key : forall k l x, kfind key k l = Some x -> key x = k.
  Proof. intros k l x H. apply (kfind_some key) in H. tauto. Qed.

  Lemma kfind_self : forall k l x, kfind key k l = Some x -> kfind key (key x) l = Some x.
  Proof. intros k l x H. rewrite (kfind_key _ _ _ H). exact H. Qed.

  Lemma kfind_snoc_fresh : forall l x, (forall y, In y l -> key y <> key x) -> kfind key (key x) (l ++ [x]) = Some x.
  Proof.
    intros l x H. rewrite (kfind_app key).
    destruct (kfind key (key x) l) as [y|] eqn:E.
    - exfalso. apply (kfind_some key) in E. destruct E as [Hin Hk]. exact (H y Hin Hk).
    - unfold kfind. cbn. rewrite N.eqb_refl. reflexivity.
  Qed.

  Lemma kupd_nodup : forall x' l, NoDup (map key l) -> NoDup (map key (kupd key x' l)).
  Proof. intros. rewrite (kupd_keys key). assumption. Qed.

  Lemma kfind_none_notin : forall k l, kfind key k l = None -> ~ In k (map key l).
  Proof.
    intros k l H Hin. apply in_map_iff in Hin. destruct Hin as [x [E Hx]].
    exact (kfind_none key k l H x Hx E).
  Qed.

  Lemma kfind_not_none : forall k l x, In x l -> key x = k -> kfind key k l <> None.
  Proof. intros k l x Hin E H. exact (kfind_none key k l H x Hin E). Qed.

  Lemma sumz_kupd_fn : forall (f : A -> Z) x' l x, NoDup (map key l) -> kfind key (key x') l = Some x ->
    f x' = f x -> sumz f (kupd key x' l) = sumz f l.
  Proof. intros f x' l x Hnd Hf E. rewrite (sumz_kupd key f x' l x Hnd Hf). lia. Qed.
End KMore.

Lemma sumz_map : forall {A B} (g : A -> B) (f : B -> Z) l, sumz f (map g l) = sumz (fun x => f (g x)) l.
Proof. intros A B g f l. induction l as [|x l IH]; cbn; [reflexivity|]. rewrite IH. reflexivity. Qed.

Lemma countz_map : forall {A B} (g : A -> B) (p : B -> bool) l, countz p (map g l) = countz (fun x => p (g x)) l.
Proof. intros A B g p l. unfold countz. exact (sumz_map g (fun y => b2z (p y)) l). Qed.

Lemma sumz_flat_map : forall {A B} (g : A -> list B) (f : B -> Z) l,
  sumz f (flat_map g l) = sumz (fun x => sumz f (g x)) l.
Proof. intros A B g f l. induction l as [|x l IH]; cbn; [reflexivity|]. rewrite sumz_app, IH. reflexivity. Qed.

Lemma sumz_const0 : forall {A} (f : A -> Z) l, (forall x, In x l -> f x = 0%Z) -> sumz f l = 0%Z.
Proof.
  intros A f l H. induction l as [|x l IH]; cbn; [reflexivity|].
  rewrite H by (left; reflexivity). rewrite IH; [reflexivity|]. intros y Hy. apply H. right. exact Hy.
Qed.

Lemma countz_false : forall {A} (p : A -> bool) l, (forall x, In x l -> p x = false) -> countz p l = 0%Z.
Proof. intros A p l H. unfold countz. apply sumz_const0. intros x Hx. rewrite H by exact Hx. reflexivity. Qed.

Lemma countz_cons : forall {A} (p : A -> bool) x l, countz p (x :: l) = (b2z (p x) + countz p l)%Z.
Proof. reflexivity. Qed.

Lemma sumz_pos_ex : forall {A} (f : A -> Z) l, (0 < sumz f l)%Z -> exists x, In x l /\ (0 < f x)%Z.
Proof.
  intros A f l. induction l as [|x l IH]; cbn; intros H; [lia|].
  destruct (Z_lt_le_dec 0 (f x)) as [Hp|Hn].
  - exists x. auto.
  - destruct IH as [y [Hy Hfy]]; [lia|]. exists y. auto.
Qed.

Lemma countz_pos_ex : forall {A} (p : A -> bool) l, (0 < countz p l)%Z -> exists x, In x l /\ p x = true.
Proof.
  intros A p l H. apply sumz_pos_ex in H. destruct H as [x [Hx Hp]]. exists x. split; [exact Hx|].
  destruct (p x); [reflexivity|cbn in Hp; lia].
Qed.

(* ---- the view ---------------------------------------------------------------- *)
Record vlof := mkVL { vl_other : N; vl_owner : N; vl_count : Z }.
Record voof := mkVO { vo_other : N; vo_handle : N; vo_live : bool; vo_lofs : list vlof }.
Record vcl := mkVC { vc_id : N; vc_oofs : list voof; vc_lows : list lowner }.
Record vstate := mkV { v_cls : list vcl; v_pool : list pfile; v_nextlo : N }.

Definition vl (lf : lofile) : vlof := mkVL (lf_other lf) (lf_owner lf) (lf_count lf).
Definition vo (o : oofile) : voof := mkVO (of_other o) (of_handle o) (of_live o) (map vl (of_lofs o)).
Definition vc (c : client) : vcl := mkVC (c_id c) (map vo (c_oofs c)) (c_lowners c).
Definition view (st : state) : vstate := mkV (map vc (st_clients st)) (st_pool st) (st_nextlo st).

Lemma vc_key : forall c, vc_id (vc c) = c_id c. Proof. reflexivity. Qed.
Lemma vo_key : forall o, vo_other (vo o) = of_other o. Proof. reflexivity. Qed.
Lemma vl_key : forall l, vl_other (vl l) = lf_other l. Proof. reflexivity. Qed.

Lemma vc_upd_client : forall c' cs, map vc (upd_client c' cs) = kupd vc_id (vc c') (map vc cs).
Proof. intros. rewrite upd_client_k. apply (map_kupd c_id vc_id vc vc_key). Qed.

Lemma vc_del_client : forall id cs, map vc (del_client id cs) = kdel vc_id id (map vc cs).
Proof. intros. rewrite del_client_k. apply (map_kdel c_id vc_id vc vc_key). Qed.

Lemma vo_upd_oofs : forall o' l, map vo (upd_oofs o' l) = kupd vo_other (vo o') (map vo l).
Proof. intros. rewrite upd_oofs_k. apply (map_kupd of_other vo_other vo vo_key). Qed.

Lemma vl_upd_lofs : forall lf' l, map vl (upd_lofs lf' l) = kupd vl_other (vl lf') (map vl l).
Proof. intros. apply (map_kupd lf_other vl_other vl vl_key). Qed.

Lemma vl_del_lofs : forall k l, map vl (del_lofs k l) = kdel vl_other k (map vl l).
Proof. intros. apply (map_kdel lf_other vl_other vl vl_key). Qed.

Lemma vfind_client : forall id cs c, find_client id cs = Some c -> kfind vc_id id (map vc cs) = Some (vc c).
Proof. intros id cs c H. rewrite (kfind_map c_id vc_id vc vc_key). rewrite find_client_k in H. rewrite H. reflexivity. Qed.

Lemma vfind_oofs : forall k l o, find_oofs_any k l = Some o -> kfind vo_other k (map vo l) = Some (vo o).
Proof. intros k l o H. rewrite (kfind_map of_other vo_other vo vo_key). rewrite find_oofs_any_k in H. rewrite H. reflexivity. Qed.

Lemma vfind_lofs : forall k l lf, kfind lf_other k l = Some lf -> kfind vl_other k (map vl l) = Some (vl lf).
Proof. intros k l lf H. rewrite (kfind_map lf_other vl_other vl vl_key). rewrite H. reflexivity. Qed.

(* Replacing an open-owner file / a client by one with the same view. *)
Lemma vo_upd_same : forall o' o l, NoDup (map of_other l) -> find_oofs_any (of_other o') l = Some o ->
  vo o' = vo o -> map vo (upd_oofs o' l) = map vo l.
Proof.
  intros o' o l Hnd Hf E. rewrite vo_upd_oofs, E. apply kupd_same.
  - rewrite (map_keys of_other vo_other vo vo_key). exact Hnd.
  - apply vfind_oofs. replace (vo_other (vo o)) with (of_other o') by (rewrite <- E; reflexivity). exact Hf.
Qed.

Lemma vc_upd_same : forall c' c cs, NoDup (map c_id cs) -> find_client (c_id c') cs = Some c ->
  vc c' = vc c -> map vc (upd_client c' cs) = map vc cs.
Proof.
  intros c' c cs Hnd Hf E. rewrite vc_upd_client, E. apply kupd_same.
  - rewrite (map_keys c_id vc_id vc vc_key). exact Hnd.
  - apply vfind_client. replace (vc_id (vc c)) with (c_id c') by (rewrite <- E; reflexivity). exact Hf.
Qed.

(* ---- well-formedness of a view (follows from the accounting invariant) -------- *)
Definition vwf (v : vstate) : Prop :=
  NoDup (map vc_id (v_cls v))
  /\ forall c, In c (v_cls v) ->
       NoDup (map vo_other (vc_oofs c))
       /\ forall o, In o (vc_oofs c) ->
            NoDup (map vl_other (vo_lofs o)) /\ (vo_live o = false -> vo_lofs o = []).

Lemma acct_vwf : forall st, acct_inv st -> vwf (view st).
Proof.
  intros st [I1 [_ [I3 _]]]. split.
  - cbn. rewrite (map_keys c_id vc_id vc vc_key). exact I1.
  - intros c Hc. cbn in Hc. apply in_map_iff in Hc. destruct Hc as [c0 [<- Hc0]].
    destruct (I3 c0 Hc0) as [N1 [N2 _]]. split.
    + cbn. rewrite (map_keys of_other vo_other vo vo_key). exact N1.
    + intros o Ho. cbn in Ho. apply in_map_iff in Ho. destruct Ho as [o0 [<- Ho0]].
      destruct (N2 o0 Ho0) as [_ [_ [D N3]]]. split.
      * cbn. rewrite (map_keys lf_other vl_other vl vl_key). exact N3.
      * cbn. intros Hl. destruct (D Hl) as [_ ->]. reflexivity.
Qed.
