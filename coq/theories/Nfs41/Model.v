(* Model of the state-accounting core of
     pkg/filesystem/virtual/nfsv4/nfs41_program.go   (nfs41Program)
     pkg/filesystem/virtual/nfsv4/opened_files_pool.go (OpenedFilesPool)
   The byte-range lock table of every opened file is the LockSet model
   (VF.LockSet.Model), reused as is.

   One [event] is one critical section of the Go code (DESIGN.md par. 2):
   - [ESolo]     a COMPOUND whose first operation is not SEQUENCE
                 (EXCHANGE_ID, CREATE_SESSION, DESTROY_*, BIND_CONN_TO_SESSION),
                 one section under clientsLock;
   - [ESeqBegin] the first section of opSequence (session/slot lookup,
                 replay, in-flight duplicate, start of a new sequence);
   - [ESection]  the next section of an in-flight compound: one operation,
                 or one part of an operation that calls into the file
                 system without holding a lock (OPEN: VirtualOpenChild /
                 VirtualOpenSelf, then the locked half; READ/WRITE/SETATTR:
                 share reservation clone, the I/O, the release), or, when
                 no operation is left, the last section of opSequence
                 (reply caching, release, delivery to waiters);
   - [EAdvance]  the fake clock moves.
   An arbitrary [list event] is an arbitrary interleaving of compounds at
   lock-release granularity.  Results of file system calls are oracles
   carried by the event ([fsres]); leaf opens and closes are outputs
   ([OLeafOpen]/[OLeafClose]).  VirtualClose calls collected in
   leavesToClose are performed by the same goroutine right after the
   section; they are emitted as outputs of the section.

   Conventions: uint32/uint64 are [N]; nfsstat4 and operation numbers are
   their numeric values; a file handle is an [N] and identifies its leaf
   (contract of the file system: one handle <-> one leaf); the root
   directory has handle 0.  Random values come from the injected
   generator, modelled as a counter ([st_rng]); the harness injects the
   same generator.  Panics of the Go code set the ghost flag [st_panic]. *)
From Coq Require Export List NArith ZArith Bool.
From VF Require LockSet.Model.
Export ListNotations.
Open Scope N_scope.

Module LS := VF.LockSet.Model.

(* ---- nfsstat4 ----------------------------------------------------------- *)
Definition NFS4_OK := 0.
Definition ERR_NOENT := 2.
Definition ERR_EXIST := 17.
Definition ERR_NOTDIR := 20.
Definition ERR_ISDIR := 21.
Definition ERR_INVAL := 22.
Definition ERR_NOTSUPP := 10004.
Definition ERR_DELAY := 10008.
Definition ERR_DENIED := 10010.
Definition ERR_SHARE_DENIED := 10015.
Definition ERR_NOFILEHANDLE := 10020.
Definition ERR_MINOR_VERS_MISMATCH := 10021.
Definition ERR_STALE_CLIENTID := 10022.
Definition ERR_OLD_STATEID := 10024.
Definition ERR_BAD_STATEID := 10025.
Definition ERR_RESTOREFH := 10030.
Definition ERR_RECLAIM_BAD := 10034.
Definition ERR_LOCKS_HELD := 10037.
Definition ERR_OPENMODE := 10038.
Definition ERR_OP_ILLEGAL := 10044.
Definition ERR_BADSESSION := 10052.
Definition ERR_BADSLOT := 10053.
Definition ERR_SEQ_MISORDERED := 10063.
Definition ERR_SEQUENCE_POS := 10064.
Definition ERR_RETRY_UNCACHED_REP := 10068.
Definition ERR_TOO_MANY_OPS := 10070.
Definition ERR_OP_NOT_IN_SESSION := 10071.
Definition ERR_CLIENTID_BUSY := 10074.
Definition ERR_SEQ_FALSE_RETRY := 10076.
Definition ERR_NOT_ONLY_OP := 10081.

(* ---- nfs_opnum4 --------------------------------------------------------- *)
Definition OP_CLOSE := 4.
Definition OP_DELEGPURGE := 7.
Definition OP_GETATTR := 9.
Definition OP_GETFH := 10.
Definition OP_LOCK := 12.
Definition OP_LOCKT := 13.
Definition OP_LOCKU := 14.
Definition OP_LOOKUP := 15.
Definition OP_OPEN := 18.
Definition OP_OPEN_DOWNGRADE := 21.
Definition OP_PUTFH := 22.
Definition OP_PUTROOTFH := 24.
Definition OP_READ := 25.
Definition OP_REMOVE := 28.
Definition OP_RESTOREFH := 31.
Definition OP_SAVEFH := 32.
Definition OP_SETATTR := 34.
Definition OP_WRITE := 38.
Definition OP_BIND_CONN_TO_SESSION := 41.
Definition OP_EXCHANGE_ID := 42.
Definition OP_CREATE_SESSION := 43.
Definition OP_DESTROY_SESSION := 44.
Definition OP_FREE_STATEID := 45.
Definition OP_SEQUENCE := 53.
Definition OP_TEST_STATEID := 55.
Definition OP_DESTROY_CLIENTID := 57.
Definition OP_ILLEGAL := 10044.

Definition u32 : N := 4294967296.
Definition u32max : N := 4294967295.
Definition u64max : N := 18446744073709551615.

(* ---- share masks (virtual.ShareMask) ------------------------------------ *)
Record mask := mkMask { mr : bool; mw : bool }.
Definition m0 := mkMask false false.
Definition mR := mkMask true false.
Definition mW := mkMask false true.
Definition m_or (a b : mask) := mkMask (mr a || mr b) (mw a || mw b).
Definition m_diff (a b : mask) := mkMask (mr a && negb (mr b)) (mw a && negb (mw b)).
Definition m_empty (a : mask) := negb (mr a) && negb (mw a).
Definition m_eqb (a b : mask) := Bool.eqb (mr a) (mr b) && Bool.eqb (mw a) (mw b).
Definition mask_of_N (n : N) : option mask :=
  match n with
  | 1 => Some (mkMask true false)
  | 2 => Some (mkMask false true)
  | 3 => Some (mkMask true true)
  | _ => None
  end.
Definition mask_to_N (m : mask) : N := (if mr m then 1 else 0) + (if mw m then 2 else 0).
(* nfs41ShareAccessToShareMask: the WANT_DELEG bits (0xff00) are ignored. *)
Definition open_share (a : N) : option mask := mask_of_N (N.ldiff a 65280).

(* shareCount.upgrade / downgrade / clone on (readers, writers).  The last
   component is the panic flag of referenceCount. *)
Definition sc_upgrade (sa : mask) (rd wr : N) (nw : mask) : mask * N * N * mask :=
  let ov := mkMask (mr nw && (0 <? rd)) (mw nw && (0 <? wr)) in
  let rd' := if mr nw && negb (mr sa) then rd + 1 else rd in
  let wr' := if mw nw && negb (mw sa) then wr + 1 else wr in
  (m_or sa nw, rd', wr', ov).

Definition sc_downgrade (sa : mask) (rd wr : N) (nsa : mask) : N * N * mask * bool :=
  let cl := m_diff sa nsa in
  let rd' := if mr cl then N.pred rd else rd in
  let wr' := if mw cl then N.pred wr else wr in
  let bz := mkMask (mr cl && (rd' =? 0)) (mw cl && (wr' =? 0)) in
  (rd', wr', bz, (mr cl && (rd =? 0)) || (mw cl && (wr =? 0))).

Definition sc_clone (rd wr : N) (sa : mask) : N * N * bool :=
  (if mr sa then rd + 1 else rd, if mw sa then wr + 1 else wr,
   (mr sa && (rd =? 0)) || (mw sa && (wr =? 0))).

(* ---- state IDs ---------------------------------------------------------- *)
(* Wire format: seqid, first 8 bytes of "other" (little endian), last 4. *)
Record stateid := mkSid { s_seq : N; s_lo : N; s_hi : N }.
Definition sid_eqb (a b : stateid) := (s_seq a =? s_seq b) && (s_lo a =? s_lo b) && (s_hi a =? s_hi b).
Definition sid_anonymous := mkSid 0 0 0.
Definition sid_bypass := mkSid u32max u64max u32max.
Definition sid_current := mkSid 1 0 0.
Definition sid_special (s : stateid) := sid_eqb s sid_anonymous || sid_eqb s sid_bypass.

(* nfs41CompareStateSeqID *)
Definition compare_seq (c s : N) : N :=
  if (c =? 0) || (c =? s) then NFS4_OK
  else let d := (c + u32 - s) mod u32 in
       if (0 <? d) && (d <? 2147483648) then ERR_BAD_STATEID else ERR_OLD_STATEID.
(* nfs41RegularStateID.incrementSeqID *)
Definition incr_seq (s : N) : N := if s =? u32max then 1 else s + 1.

(* ---- requests ----------------------------------------------------------- *)
Inductive claim :=
| ClaimNull (name : N)          (* name 0 is the empty string *)
| ClaimFH
| ClaimPrev (deleg_none : bool)
| ClaimDelegCur
| ClaimDelegPrev
| ClaimOther.
Inductive openhow := HowNoCreate | HowUnchecked | HowGuarded | HowExclusive.
Inductive locker :=
| LockerNew (open_sid : stateid) (owner : N)
| LockerExisting (lock_sid : stateid).

Inductive op :=
| OPutRootFH
| OPutFH (h : N)
| OLookup (name : N)
| OGetFH
| OSaveFH
| ORestoreFH
| OGetattr
| ORemove (name : N)
| OOpen (owner access deny : N) (how : openhow) (c : claim)
| OOpenDowngrade (s : stateid) (access deny : N)
| OClose (s : stateid)
| OLock (ltype off len : N) (lk : locker)
| OLockT (ltype off len owner : N)
| OLockU (s : stateid) (off len : N)
| ORead (s : stateid)
| OWrite (s : stateid)
| OSetattr (s : stateid)
| OFreeStateid (s : stateid)
| OTestStateid (l : list stateid)
| ODelegPurge
| ONestedSequence
| OIllegal
| OBindConn
| OExchangeId (owner verifier : N)
| OCreateSession (clientid seq : N)
| ODestroySession (id : N)
| ODestroyClientid (id : N).

Definition argop (o : op) : N :=
  match o with
  | OPutRootFH => OP_PUTROOTFH | OPutFH _ => OP_PUTFH | OLookup _ => OP_LOOKUP
  | OGetFH => OP_GETFH | OSaveFH => OP_SAVEFH | ORestoreFH => OP_RESTOREFH
  | OGetattr => OP_GETATTR | ORemove _ => OP_REMOVE
  | OOpen _ _ _ _ _ => OP_OPEN | OOpenDowngrade _ _ _ => OP_OPEN_DOWNGRADE
  | OClose _ => OP_CLOSE | OLock _ _ _ _ => OP_LOCK | OLockT _ _ _ _ => OP_LOCKT
  | OLockU _ _ _ => OP_LOCKU | ORead _ => OP_READ | OWrite _ => OP_WRITE
  | OSetattr _ => OP_SETATTR | OFreeStateid _ => OP_FREE_STATEID
  | OTestStateid _ => OP_TEST_STATEID | ODelegPurge => OP_DELEGPURGE
  | ONestedSequence => OP_SEQUENCE | OIllegal => OP_ILLEGAL
  | OBindConn => OP_BIND_CONN_TO_SESSION | OExchangeId _ _ => OP_EXCHANGE_ID
  | OCreateSession _ _ => OP_CREATE_SESSION | ODestroySession _ => OP_DESTROY_SESSION
  | ODestroyClientid _ => OP_DESTROY_CLIENTID
  end.

(* A COMPOUND whose first operation is not SEQUENCE. *)
Inductive solo :=
| SExchangeId (owner verifier : N)
| SCreateSession (clientid seq : N)
| SDestroySession (id : N)
| SDestroyClientid (id : N)
| SBindConn (id : N) (dir_valid : bool)
| SNotOnlyOp (opnum : N)         (* one of the above followed by more operations *)
| SNotInSession                   (* any other first operation *)
| SMinorMismatch
| SEmpty.

(* Result of a call into the file system (oracle). *)
Inductive fsres :=
| FsOk
| FsLeaf (h : N)
| FsDir (h : N)
| FsErr (st : N).

(* ---- replies ------------------------------------------------------------ *)
Inductive opres :=
| RStatus (opnum st : N)
| RSequenceOk (sess seq slot hi : N)
| RGetFH (h : N)
| RStateid (opnum seq other : N)
| RDenied (opnum off len ltype clientid owner : N)
| RTestStateid (l : list N)
| RExchangeId (clientid seq : N) (confirmed : bool)
| RCreateSession (sess seq : N).

Definition resop (r : opres) : N :=
  match r with
  | RStatus o _ => o
  | RSequenceOk _ _ _ _ => OP_SEQUENCE
  | RGetFH _ => OP_GETFH
  | RStateid o _ _ => o
  | RDenied o _ _ _ _ _ => o
  | RTestStateid _ => OP_TEST_STATEID
  | RExchangeId _ _ _ => OP_EXCHANGE_ID
  | RCreateSession _ _ => OP_CREATE_SESSION
  end.
Definition res_status (r : opres) : N :=
  match r with
  | RStatus _ st => st
  | RDenied _ _ _ _ _ _ => ERR_DENIED
  | _ => NFS4_OK
  end.

Record creply := mkReply { cr_status : N; cr_res : list opres }.
Definition seq_error (st : N) := mkReply st [RStatus OP_SEQUENCE st].

Inductive out :=
| OReply (tid : N) (r : creply)
| OLeafOpen (h : N) (m : mask)
| OLeafClose (h : N) (m : mask).

(* ---- state -------------------------------------------------------------- *)
Record lofile := mkLof {
  lf_other : N; lf_seq : N;
  lf_owner : N;            (* identity of the lock-owner object *)
  lf_share : mask; lf_count : Z }.

Record oofile := mkOof {
  of_other : N; of_seq : N; of_owner : N; of_handle : N;
  of_share : mask; of_readers : N; of_writers : N;
  of_lofs : list lofile;
  of_live : bool }.        (* false: removed from the maps, but I/O in flight *)

Record lowner := mkLow { lo_id : N; lo_key : N; lo_files : N }.

Record client := mkClient {
  c_id : N; c_owner : N; c_verifier : N; c_confirmed : bool;
  c_hold : N; c_seen : N;
  c_seq : N;                          (* lastSequenceID *)
  c_csreply : option (N * N);         (* lastCreateSessionResponse: session, sequence *)
  c_oofs : list oofile;
  c_lowners : list lowner;            (* lockOwnersByOwner *)
  c_other : N }.                      (* lastStateIDOther *)

Record slot := mkSlot {
  sl_seq : N; sl_res : creply;
  sl_busy : option N }.               (* currentSequenceWaiters != nil: the running compound *)

Record session := mkSession { ss_id : N; ss_client : N; ss_slots : list slot }.

Record pfile := mkPfile { pf_handle : N; pf_use : N; pf_locks : list LS.lock }.

Inductive node := NNone | NDir (h : N) | NLeaf (h : N).
Record fh := mkFh { f_node : node; f_seq : N; f_other : N }.
Definition fh_none := mkFh NNone 0 0.
Definition fh_set (f : fh) := match f_node f with NNone => false | _ => true end.
Definition fh_handle (f : fh) : N := match f_node f with NNone => 0 | NDir h => h | NLeaf h => h end.

Inductive phase :=
| PhNone
| PhOpened (h : N) (m : mask)          (* OPEN: leaf opened, locked half pending *)
| PhIoReg (other h : N) (m : mask)     (* I/O: share reservation cloned *)
| PhIoAnon (h : N) (m : mask)          (* I/O with a special state ID: leaf opened *)
| PhIoRegDone (other h : N) (m : mask) (st : N)   (* ... I/O done, release pending *)
| PhIoAnonDone (h : N) (m : mask) (st : N).       (* ... I/O done, close pending *)

Record thread := mkThread {
  t_id : N; t_sess : N; t_slot : N; t_seq : N; t_cache : bool; t_client : N;
  t_ops : list op; t_res : list opres; t_status : N;
  t_cfh : fh; t_sfh : fh; t_phase : phase;
  t_waiters : list N }.

Record config := mkConfig { cf_lease : N; cf_slots : N; cf_maxops : N }.

Record state := mkState {
  st_cfg : config;
  st_clock : N;                       (* the injected clock *)
  st_now : N;                         (* p.now *)
  st_rng : N;                         (* injected generator: a counter *)
  st_nextlo : N;                      (* next lock-owner object identity *)
  st_clients : list client;
  st_idle : list N;                   (* idleClientIncarnations, head first *)
  st_sessions : list session;
  st_pool : list pfile;
  st_threads : list thread;
  st_panic : bool }.

Definition init (cfg : config) (clock0 : N) : state :=
  mkState cfg clock0 0 0 1 [] [] [] [] [] false.

(* ---- record updates ----------------------------------------------------- *)
Definition set_clients (st : state) (x : list client) :=
  mkState (st_cfg st) (st_clock st) (st_now st) (st_rng st) (st_nextlo st) x (st_idle st)
          (st_sessions st) (st_pool st) (st_threads st) (st_panic st).
Definition set_idle (st : state) (x : list N) :=
  mkState (st_cfg st) (st_clock st) (st_now st) (st_rng st) (st_nextlo st) (st_clients st) x
          (st_sessions st) (st_pool st) (st_threads st) (st_panic st).
Definition set_sessions (st : state) (x : list session) :=
  mkState (st_cfg st) (st_clock st) (st_now st) (st_rng st) (st_nextlo st) (st_clients st) (st_idle st)
          x (st_pool st) (st_threads st) (st_panic st).
Definition set_pool (st : state) (x : list pfile) :=
  mkState (st_cfg st) (st_clock st) (st_now st) (st_rng st) (st_nextlo st) (st_clients st) (st_idle st)
          (st_sessions st) x (st_threads st) (st_panic st).
Definition set_threads (st : state) (x : list thread) :=
  mkState (st_cfg st) (st_clock st) (st_now st) (st_rng st) (st_nextlo st) (st_clients st) (st_idle st)
          (st_sessions st) (st_pool st) x (st_panic st).
Definition set_now (st : state) (x : N) :=
  mkState (st_cfg st) (st_clock st) x (st_rng st) (st_nextlo st) (st_clients st) (st_idle st)
          (st_sessions st) (st_pool st) (st_threads st) (st_panic st).
Definition set_clock (st : state) (x : N) :=
  mkState (st_cfg st) x (st_now st) (st_rng st) (st_nextlo st) (st_clients st) (st_idle st)
          (st_sessions st) (st_pool st) (st_threads st) (st_panic st).
Definition set_rng (st : state) (x : N) :=
  mkState (st_cfg st) (st_clock st) (st_now st) x (st_nextlo st) (st_clients st) (st_idle st)
          (st_sessions st) (st_pool st) (st_threads st) (st_panic st).
Definition set_nextlo (st : state) (x : N) :=
  mkState (st_cfg st) (st_clock st) (st_now st) (st_rng st) x (st_clients st) (st_idle st)
          (st_sessions st) (st_pool st) (st_threads st) (st_panic st).
Definition add_panic (st : state) (b : bool) :=
  mkState (st_cfg st) (st_clock st) (st_now st) (st_rng st) (st_nextlo st) (st_clients st) (st_idle st)
          (st_sessions st) (st_pool st) (st_threads st) (st_panic st || b).

Definition c_set_oofs (c : client) (x : list oofile) :=
  mkClient (c_id c) (c_owner c) (c_verifier c) (c_confirmed c) (c_hold c) (c_seen c) (c_seq c)
           (c_csreply c) x (c_lowners c) (c_other c).
Definition c_set_lowners (c : client) (x : list lowner) :=
  mkClient (c_id c) (c_owner c) (c_verifier c) (c_confirmed c) (c_hold c) (c_seen c) (c_seq c)
           (c_csreply c) (c_oofs c) x (c_other c).
Definition c_set_other (c : client) (x : N) :=
  mkClient (c_id c) (c_owner c) (c_verifier c) (c_confirmed c) (c_hold c) (c_seen c) (c_seq c)
           (c_csreply c) (c_oofs c) (c_lowners c) x.
Definition c_set_hold (c : client) (h seen : N) :=
  mkClient (c_id c) (c_owner c) (c_verifier c) (c_confirmed c) h seen (c_seq c)
           (c_csreply c) (c_oofs c) (c_lowners c) (c_other c).
Definition c_set_confirmed (c : client) (b : bool) :=
  mkClient (c_id c) (c_owner c) (c_verifier c) b (c_hold c) (c_seen c) (c_seq c)
           (c_csreply c) (c_oofs c) (c_lowners c) (c_other c).
Definition c_set_cs (c : client) (sq : N) (r : option (N * N)) :=
  mkClient (c_id c) (c_owner c) (c_verifier c) (c_confirmed c) (c_hold c) (c_seen c) sq
           r (c_oofs c) (c_lowners c) (c_other c).

Definition o_set (o : oofile) (sq : N) (sa : mask) (rd wr : N) (lofs : list lofile) (live : bool) :=
  mkOof (of_other o) sq (of_owner o) (of_handle o) sa rd wr lofs live.
Definition l_set (l : lofile) (sq : N) (cnt : Z) :=
  mkLof (lf_other l) sq (lf_owner l) (lf_share l) cnt.

(* ---- lookups ------------------------------------------------------------ *)
Definition find_client (id : N) (l : list client) : option client :=
  find (fun c => c_id c =? id) l.
Definition upd_client (c' : client) (l : list client) : list client :=
  map (fun c => if c_id c =? c_id c' then c' else c) l.
Definition del_client (id : N) (l : list client) : list client :=
  filter (fun c => negb (c_id c =? id)) l.

Definition find_session (id : N) (l : list session) := find (fun s => ss_id s =? id) l.
Definition del_session (id : N) (l : list session) := filter (fun s => negb (ss_id s =? id)) l.
Definition upd_session (s' : session) (l : list session) :=
  map (fun s => if ss_id s =? ss_id s' then s' else s) l.

Definition find_thread (id : N) (l : list thread) := find (fun t => t_id t =? id) l.
Definition del_thread (id : N) (l : list thread) := filter (fun t => negb (t_id t =? id)) l.
Definition upd_thread (t' : thread) (l : list thread) :=
  map (fun t => if t_id t =? t_id t' then t' else t) l.

Definition find_pfile (h : N) (l : list pfile) := find (fun p => pf_handle p =? h) l.
Definition upd_pfile (p' : pfile) (l : list pfile) :=
  map (fun p => if pf_handle p =? pf_handle p' then p' else p) l.
Definition del_pfile (h : N) (l : list pfile) := filter (fun p => negb (pf_handle p =? h)) l.

(* openOwnerFilesByOther / filesByHandle only contain live entries. *)
Definition find_oofs (other : N) (l : list oofile) :=
  find (fun o => of_live o && (of_other o =? other)) l.
Definition find_oofs_any (other : N) (l : list oofile) :=
  find (fun o => of_other o =? other) l.
Definition find_oofs_oh (owner h : N) (l : list oofile) :=
  find (fun o => of_live o && (of_owner o =? owner) && (of_handle o =? h)) l.
(* Entries that left the maps stay in the list (of_live = false): I/O in
   flight may still refer to them; once their counts are zero they are
   inert (in Go: garbage). *)
Definition upd_oofs (o' : oofile) (l : list oofile) : list oofile :=
  map (fun o => if of_other o =? of_other o' then o' else o) l.

Definition find_lofs (other : N) (l : list oofile) : option (oofile * lofile) :=
  match find (fun o => of_live o && existsb (fun lf => lf_other lf =? other) (of_lofs o)) l with
  | Some o => match find (fun lf => lf_other lf =? other) (of_lofs o) with
              | Some lf => Some (o, lf)
              | None => None
              end
  | None => None
  end.
Definition upd_lofs (lf' : lofile) (l : list lofile) :=
  map (fun lf => if lf_other lf =? lf_other lf' then lf' else lf) l.
Definition del_lofs (other : N) (l : list lofile) :=
  filter (fun lf => negb (lf_other lf =? other)) l.

Definition find_lowner_key (key : N) (l : list lowner) := find (fun x => lo_key x =? key) l.
Definition find_lowner_id (id : N) (l : list lowner) := find (fun x => lo_id x =? id) l.
(* nfs41LockOwnerState.decreaseFileCount *)
Definition lowner_dec (id : N) (l : list lowner) : list lowner * bool :=
  (filter (fun x => negb ((lo_id x =? id) && (lo_files x =? 0)))
          (map (fun x => if lo_id x =? id then mkLow (lo_id x) (lo_key x) (N.pred (lo_files x)) else x) l),
   existsb (fun x => (lo_id x =? id) && (lo_files x =? 0)) l).
Definition lowner_inc (id : N) (l : list lowner) : list lowner :=
  map (fun x => if lo_id x =? id then mkLow (lo_id x) (lo_key x) (lo_files x + 1) else x) l.

(* Who owns lock-owner object [id]: (client ID, owner). *)
Fixpoint lowner_name (id : N) (cs : list client) : option (N * N) :=
  match cs with
  | [] => None
  | c :: tl => match find_lowner_id id (c_lowners c) with
               | Some x => Some (c_id c, lo_key x)
               | None => lowner_name id tl
               end
  end.

(* ---- opened files pool -------------------------------------------------- *)
(* OpenedFilesPool.Open *)
Definition pool_open (h : N) (l : list pfile) : list pfile :=
  match find_pfile h l with
  | Some p => upd_pfile (mkPfile h (pf_use p + 1) (pf_locks p)) l
  | None => l ++ [mkPfile h 1 []]
  end.
(* OpenedFile.Close *)
Definition pool_close (h : N) (l : list pfile) : list pfile * bool :=
  match find_pfile h l with
  | Some p => if pf_use p <=? 1 then (del_pfile h l, pf_use p =? 0)
              else (upd_pfile (mkPfile h (N.pred (pf_use p)) (pf_locks p)) l, false)
  | None => (l, true)
  end.
Definition pool_locks (h : N) (l : list pfile) : list LS.lock :=
  match find_pfile h l with Some p => pf_locks p | None => [] end.
Definition pool_set_locks (h : N) (lk : list LS.lock) (l : list pfile) : list pfile :=
  match find_pfile h l with
  | Some p => upd_pfile (mkPfile h (pf_use p) lk) l
  | None => l
  end.

(* nfsLockType4ToByteRangeLockType *)
Definition lock_type (t : N) : option LS.ltype :=
  match t with
  | 1 | 3 => Some LS.Shared
  | 2 | 4 => Some LS.Exclusive
  | _ => None
  end.

(* byteRangeLockToLock4Denied *)
Definition denied_of (opnum : N) (cs : list client) (c : LS.lock) : opres :=
  let len := if LS.lend c =? u64max then u64max else LS.lend c - LS.lstart c in
  let ty := match LS.ltyp c with LS.Shared => 1 | _ => 2 end in
  match lowner_name (LS.lowner c) cs with
  | Some (cid, key) => RDenied opnum (LS.lstart c) len ty cid key
  | None => RDenied opnum (LS.lstart c) len ty 0 0
  end.

(* ---- idle list, hold, release ------------------------------------------- *)
Definition idle_remove (id : N) (l : list N) := filter (fun x => negb (x =? id)) l.

(* clientIncarnationState.hold *)
Definition hold (id : N) (st : state) : state :=
  match find_client id (st_clients st) with
  | Some c =>
    let st1 := if c_hold c =? 0 then set_idle st (idle_remove id (st_idle st)) else st in
    set_clients st1 (upd_client (c_set_hold c (c_hold c + 1) (c_seen c)) (st_clients st1))
  | None => st
  end.
(* clientIncarnationState.release *)
Definition release (id : N) (st : state) : state :=
  match find_client id (st_clients st) with
  | Some c =>
    if c_hold c =? 0 then add_panic st true
    else if c_hold c =? 1
    then set_idle (set_clients st (upd_client (c_set_hold c 0 (st_now st)) (st_clients st)))
                  (st_idle st ++ [id])
    else set_clients st (upd_client (c_set_hold c (N.pred (c_hold c)) (c_seen c)) (st_clients st))
  | None => st
  end.

(* ---- removal of open and lock state ------------------------------------- *)
Definition close_out (h : N) (m : mask) : list out :=
  if m_empty m then [] else [OLeafClose h m].

(* oofs.downgradeShareAccess for a holder with mask [sa] going to [nsa]. *)
Definition oofs_downgrade (o : oofile) (sa nsa : mask) : oofile * list out * bool :=
  let '(rd, wr, bz, pn) := sc_downgrade sa (of_readers o) (of_writers o) nsa in
  (o_set o (of_seq o) (of_share o) rd wr (of_lofs o) (of_live o), close_out (of_handle o) bz, pn).

(* lofs.remove (and, with [unlock], unlockAndRemove) for all lock-owner
   files in [lfs] of the open-owner file [o]. *)
Fixpoint lofs_remove_all (unlock : bool) (lfs : list lofile) (o : oofile) (lows : list lowner)
    (pool : list pfile) : oofile * list lowner * list pfile * list out * bool :=
  match lfs with
  | [] => (o, lows, pool, [], false)
  | lf :: tl =>
    let h := of_handle o in
    let '(cnt, pool1) :=
      if unlock && (0 <? lf_count lf)%Z then
        let r := LS.set (pool_locks h pool) (LS.mkLock 0 u64max (lf_owner lf) LS.Unlocked) in
        ((lf_count lf + LS.set_delta r)%Z, pool_set_locks h (LS.set_list r) pool)
      else (lf_count lf, pool) in
    let '(o1, outs1, pn1) := oofs_downgrade o (lf_share lf) m0 in
    let o2 := o_set o1 (of_seq o1) (of_share o1) (of_readers o1) (of_writers o1)
                    (del_lofs (lf_other lf) (of_lofs o1)) (of_live o1) in
    let '(lows1, pn2) := lowner_dec (lf_owner lf) lows in
    let '(o3, lows2, pool2, outs2, pn3) := lofs_remove_all unlock tl o2 lows1 pool1 in
    (o3, lows2, pool2, outs1 ++ outs2, negb (cnt =? 0)%Z || pn1 || pn2 || pn3)
  end.

(* nfs41OpenOwnerFileState.remove *)
Definition oofs_remove (o : oofile) (c : client) (pool : list pfile)
    : client * list pfile * list out * bool :=
  let '(o1, lows, pool1, outs1, pn1) := lofs_remove_all true (of_lofs o) o (c_lowners c) pool in
  let '(o2, outs2, pn2) := oofs_downgrade o1 (of_share o1) m0 in
  let o3 := o_set o2 (of_seq o2) m0 (of_readers o2) (of_writers o2) [] false in
  let '(pool2, pn3) := pool_close (of_handle o) pool1 in
  (c_set_lowners (c_set_oofs c (upd_oofs o3 (c_oofs c))) lows, pool2, outs1 ++ outs2,
   pn1 || pn2 || pn3).

Fixpoint oofs_remove_all (others : list N) (c : client) (pool : list pfile)
    : client * list pfile * list out * bool :=
  match others with
  | [] => (c, pool, [], false)
  | x :: tl =>
    match find_oofs x (c_oofs c) with
    | Some o =>
      let '(c1, pool1, outs1, pn1) := oofs_remove o c pool in
      let '(c2, pool2, outs2, pn2) := oofs_remove_all tl c1 pool1 in
      (c2, pool2, outs1 ++ outs2, pn1 || pn2)
    | None => oofs_remove_all tl c pool
    end
  end.

Definition live_others (c : client) : list N :=
  map of_other (filter of_live (c_oofs c)).

(* clientIncarnationState.remove *)
Definition client_remove (id : N) (st : state) : state :=
  match find_client id (st_clients st) with
  | Some c =>
    let pn := negb (c_hold c =? 0) || existsb of_live (c_oofs c)
              || existsb (fun s => ss_client s =? id) (st_sessions st) in
    add_panic (set_idle (set_clients st (del_client id (st_clients st)))
                        (idle_remove id (st_idle st))) pn
  | None => st
  end.

(* clientIncarnationState.emptyAndRemove *)
Definition empty_and_remove (id : N) (st : state) : state * list out :=
  match find_client id (st_clients st) with
  | Some c =>
    let '(c1, pool1, outs, pn) := oofs_remove_all (live_others c) c (st_pool st) in
    let st1 := add_panic (set_pool (set_clients st (upd_client c1 (st_clients st))) pool1) pn in
    let st2 := set_sessions st1 (filter (fun s => negb (ss_client s =? id)) (st_sessions st1)) in
    (client_remove id st2, outs)
  | None => (st, [])
  end.

(* ---- enter() ------------------------------------------------------------ *)
Definition expired (st : state) (id : N) : bool :=
  match find_client id (st_clients st) with
  | Some c => c_seen c + cf_lease (st_cfg st) <? st_now st
  | None => false
  end.

Fixpoint expire_list (ids : list N) (st : state) : state * list out :=
  match ids with
  | [] => (st, [])
  | id :: tl =>
    if expired st id then
      let '(st1, o1) := empty_and_remove id st in
      let '(st2, o2) := expire_list tl st1 in (st2, o1 ++ o2)
    else (st, [])
  end.

Definition enter (st : state) : state * list out :=
  let st1 := if st_now st <? st_clock st then set_now st (st_clock st) else st in
  expire_list (st_idle st1) st1.

(* ---- EXCHANGE_ID, CREATE_SESSION, DESTROY_* ----------------------------- *)
Definition op_exchange_id (owner verifier : N) (st0 : state) : state * list out * opres :=
  let '(st, outs) := enter st0 in
  match find (fun c => (c_owner c =? owner) && (c_verifier c =? verifier)) (st_clients st) with
  | Some c =>
    (st, outs, RExchangeId (c_id c) (if c_confirmed c then 0 else (c_seq c + 1) mod u32) (c_confirmed c))
  | None =>
    let cid := st_rng st + 1 in
    let sq := st_rng st + 2 in
    let c := mkClient cid owner verifier false 0 (st_now st) sq None [] [] 0 in
    let st1 := set_idle (set_clients (set_rng st (st_rng st + 2)) (st_clients st ++ [c]))
                        (st_idle st ++ [cid]) in
    (st1, outs, RExchangeId cid ((sq + 1) mod u32) false)
  end.

Definition fresh_slots (n : N) : list slot :=
  repeat (mkSlot 0 (seq_error ERR_SEQ_MISORDERED) None) (N.to_nat n).

(* cis.hold() followed, at the end of the same critical section, by the
   deferred cis.release(p): for an incarnation that is idle this moves it
   to the tail of the idle list with lastSeen = now; for one that is held
   by compounds in flight it has no net effect. *)
Definition touch (id : N) (st : state) : state :=
  match find_client id (st_clients st) with
  | Some c =>
    if c_hold c =? 0
    then set_idle (set_clients st (upd_client (c_set_hold c 0 (st_now st)) (st_clients st)))
                  (idle_remove id (st_idle st) ++ [id])
    else st
  | None => st
  end.

(* CREATE_SESSION, after a possible other confirmed incarnation has been
   dealt with: confirm, allocate the session, cache the response, release. *)
Definition cs_finish (cid sq : N) (st1 : state) : state * opres :=
  let st3 := match find_client cid (st_clients st1) with
             | Some c2 => set_clients st1 (upd_client (c_set_confirmed c2 true) (st_clients st1))
             | None => st1 end in
  let sess := st_rng st3 + 1 in
  let st4 := set_sessions (set_rng st3 sess)
               (mkSession sess cid (fresh_slots (cf_slots (st_cfg st3))) :: st_sessions st3) in
  let st5 := match find_client cid (st_clients st4) with
             | Some c2 => set_clients st4 (upd_client (c_set_cs c2 sq (Some (sess, sq))) (st_clients st4))
             | None => st4 end in
  (touch cid st5, RCreateSession sess sq).

Definition op_create_session (cid sq : N) (st0 : state) : state * list out * opres :=
  let '(st, outs) := enter st0 in
  match find_client cid (st_clients st) with
  | None => (st, outs, RStatus OP_CREATE_SESSION ERR_STALE_CLIENTID)
  | Some c =>
    if sq =? c_seq c then
      (st, outs, match c_csreply c with
                 | Some (sess, s) => RCreateSession sess s
                 | None => RStatus OP_CREATE_SESSION ERR_SEQ_MISORDERED
                 end)
    else if sq =? (c_seq c + 1) mod u32 then
      let other := find (fun x => (c_owner x =? c_owner c) && c_confirmed x && negb (c_id x =? cid))
                        (st_clients st) in
      match other with
      | Some x =>
        if 0 <? c_hold x then
          (touch cid st, outs, RStatus OP_CREATE_SESSION ERR_DELAY)
        else
          let '(st2, outs2) := empty_and_remove (c_id x) st in
          let '(st3, r) := cs_finish cid sq st2 in
          (st3, outs ++ outs2, r)
      | None =>
        let '(st3, r) := cs_finish cid sq st in (st3, outs, r)
      end
    else (st, outs, RStatus OP_CREATE_SESSION ERR_SEQ_MISORDERED)
  end.

Definition op_destroy_clientid (cid : N) (st0 : state) : state * list out * opres :=
  let '(st, outs) := enter st0 in
  match find_client cid (st_clients st) with
  | None => (st, outs, RStatus OP_DESTROY_CLIENTID ERR_STALE_CLIENTID)
  | Some c =>
    if negb (c_hold c =? 0) || existsb of_live (c_oofs c)
       || existsb (fun s => ss_client s =? cid) (st_sessions st)
    then (st, outs, RStatus OP_DESTROY_CLIENTID ERR_CLIENTID_BUSY)
    else (client_remove cid st, outs, RStatus OP_DESTROY_CLIENTID NFS4_OK)
  end.

Definition op_destroy_session (id : N) (st0 : state) : state * list out * opres :=
  let '(st, outs) := enter st0 in
  match find_session id (st_sessions st) with
  | None => (st, outs, RStatus OP_DESTROY_SESSION ERR_BADSESSION)
  | Some _ => (set_sessions st (del_session id (st_sessions st)), outs,
               RStatus OP_DESTROY_SESSION NFS4_OK)
  end.

Definition op_bind_conn (id : N) (dir_valid : bool) (st0 : state) : state * list out * opres :=
  if negb dir_valid then (st0, [], RStatus OP_BIND_CONN_TO_SESSION ERR_INVAL) else
  let '(st, outs) := enter st0 in
  match find_session id (st_sessions st) with
  | None => (st, outs, RStatus OP_BIND_CONN_TO_SESSION ERR_BADSESSION)
  | Some _ => (st, outs, RStatus OP_BIND_CONN_TO_SESSION NFS4_OK)
  end.

Definition solo_step (tid : N) (s : solo) (st : state) : state * list out :=
  let fin (x : state * list out * opres) :=
    let '(st1, outs, r) := x in
    (st1, outs ++ [OReply tid (mkReply (res_status r) [r])]) in
  match s with
  | SExchangeId o v => fin (op_exchange_id o v st)
  | SCreateSession c s => fin (op_create_session c s st)
  | SDestroySession i => fin (op_destroy_session i st)
  | SDestroyClientid i => fin (op_destroy_clientid i st)
  | SBindConn i d => fin (op_bind_conn i d st)
  | SNotOnlyOp o => (st, [OReply tid (mkReply ERR_NOT_ONLY_OP [RStatus o ERR_NOT_ONLY_OP])])
  | SNotInSession => (st, [OReply tid (mkReply ERR_OP_NOT_IN_SESSION [RStatus OP_ILLEGAL ERR_OP_NOT_IN_SESSION])])
  | SMinorMismatch => (st, [OReply tid (mkReply ERR_MINOR_VERS_MISMATCH [])])
  | SEmpty => (st, [OReply tid (mkReply NFS4_OK [])])
  end.

(* ---- opSequence: first section ------------------------------------------ *)
Fixpoint shape_ok (cached : list opres) (args : list op) : bool :=
  match cached, args with
  | [], _ => true
  | r :: ctl, a :: atl =>
    ((resop r =? argop a) || (resop r =? OP_ILLEGAL)) && shape_ok ctl atl
  | _ :: _, [] => false
  end.

Definition replay_reply (cachedr : creply) (args : list op) : creply :=
  let cached := tl (cr_res cachedr) in
  if (length args <? length cached)%nat
     || ((cr_status cachedr =? NFS4_OK) && negb (length cached =? length args)%nat)
  then seq_error ERR_SEQ_FALSE_RETRY
  else if shape_ok cached args then cachedr else seq_error ERR_SEQ_FALSE_RETRY.

Definition upd_slot (i : N) (f : slot -> slot) (l : list slot) : list slot :=
  let n := N.to_nat i in
  firstn n l ++ match nth_error l n with Some s => [f s] | None => [] end ++ skipn (S n) l.

Definition set_slot (st : state) (ss : session) (i : N) (f : slot -> slot) : state :=
  set_sessions st (upd_session (mkSession (ss_id ss) (ss_client ss) (upd_slot i f (ss_slots ss)))
                               (st_sessions st)).

Definition seq_begin (tid sess sl sq : N) (cache : bool) (ops : list op) (st0 : state)
    : state * list out :=
  let '(st, outs) := enter st0 in
  match find_session sess (st_sessions st) with
  | None => (st, outs ++ [OReply tid (seq_error ERR_BADSESSION)])
  | Some ss =>
    match nth_error (ss_slots ss) (N.to_nat sl) with
    | None => (st, outs ++ [OReply tid (seq_error ERR_BADSLOT)])
    | Some s =>
      if sq =? sl_seq s then (st, outs ++ [OReply tid (replay_reply (sl_res s) ops)])
      else if sq =? (sl_seq s + 1) mod u32 then
        match sl_busy s with
        | Some orig =>
          (* In-flight duplicate: wait for the original's result. *)
          match find_thread orig (st_threads st) with
          | Some t =>
            (set_threads st (upd_thread
               (mkThread (t_id t) (t_sess t) (t_slot t) (t_seq t) (t_cache t) (t_client t) (t_ops t)
                         (t_res t) (t_status t) (t_cfh t) (t_sfh t) (t_phase t) (t_waiters t ++ [tid]))
               (st_threads st)), outs)
          | None => (add_panic st true, outs)
          end
        | None =>
          let st1 := set_slot st ss sl
                       (fun s => mkSlot (sl_seq s) (seq_error ERR_SEQ_MISORDERED) (sl_busy s)) in
          if cf_maxops (st_cfg st) <? 1 + N.of_nat (length ops) then
            (st1, outs ++ [OReply tid (seq_error ERR_TOO_MANY_OPS)])
          else
            let st2 := set_slot st ss sl
                         (fun s => mkSlot (sl_seq s) (seq_error ERR_SEQ_MISORDERED) (Some tid)) in
            let st3 := hold (ss_client ss) st2 in
            let hi := N.pred (N.of_nat (length (ss_slots ss))) in
            let t := mkThread tid sess sl sq cache (ss_client ss) ops
                              [RSequenceOk sess sq sl hi] NFS4_OK fh_none fh_none PhNone [] in
            (set_threads st3 (st_threads st3 ++ [t]), outs)
        end
      else (st, outs ++ [OReply tid (seq_error ERR_SEQ_MISORDERED)])
    end
  end.

(* ---- opSequence: last section ------------------------------------------- *)
Definition cached_reply (cache : bool) (res : list opres) (status : N) : creply :=
  if cache || (length res <? 2)%nat || ((length res =? 2)%nat && negb (status =? NFS4_OK))
  then mkReply status res
  else match res with
       | r0 :: r1 :: _ => mkReply ERR_RETRY_UNCACHED_REP [r0; RStatus (resop r1) ERR_RETRY_UNCACHED_REP]
       | _ => mkReply status res
       end.

Definition seq_end (t : thread) (st0 : state) : state * list out :=
  let result := mkReply (t_status t) (t_res t) in
  let cachedr := cached_reply (t_cache t) (t_res t) (t_status t) in
  let '(st, outs) := enter st0 in
  let st1 := release (t_client t) st in
  let st2 := match find_session (t_sess t) (st_sessions st1) with
             | Some ss => set_slot st1 ss (t_slot t) (fun _ => mkSlot (t_seq t) cachedr None)
             | None => st1
             end in
  (set_threads st2 (del_thread (t_id t) (st_threads st2)),
   outs ++ OReply (t_id t) result :: map (fun w => OReply w result) (t_waiters t)).

(* ---- state ID lookups --------------------------------------------------- *)
(* sequenceState.getOpenOwnerFileByStateID *)
Definition get_oofs (c : client) (cfh : fh) (s : stateid) (will_downgrade : bool)
    : option oofile * N :=
  if negb (fh_set cfh) then (None, ERR_NOFILEHANDLE)
  else if sid_eqb s sid_current then
    match find_oofs (f_other cfh) (c_oofs c) with
    | None => (None, ERR_BAD_STATEID)
    | Some o => if will_downgrade && negb (f_seq cfh =? of_seq o) then (None, ERR_OLD_STATEID)
                else (Some o, NFS4_OK)
    end
  else if negb (s_hi s =? 0) then (None, ERR_BAD_STATEID)
  else match find_oofs (s_lo s) (c_oofs c) with
       | None => (None, ERR_BAD_STATEID)
       | Some o => if negb (fh_handle cfh =? of_handle o) then (None, ERR_BAD_STATEID)
                   else (Some o, compare_seq (s_seq s) (of_seq o))
       end.

(* sequenceState.getLockOwnerFileByStateID *)
Definition get_lofs (c : client) (cfh : fh) (s : stateid) : option (oofile * lofile) * N :=
  if negb (fh_set cfh) then (None, ERR_NOFILEHANDLE)
  else if sid_eqb s sid_current then
    match find_lofs (f_other cfh) (c_oofs c) with
    | None => (None, ERR_BAD_STATEID)
    | Some x => (Some x, NFS4_OK)
    end
  else if negb (s_hi s =? 0) then (None, ERR_BAD_STATEID)
  else match find_lofs (s_lo s) (c_oofs c) with
       | None => (None, ERR_BAD_STATEID)
       | Some (o, lf) => if negb (fh_handle cfh =? of_handle o) then (None, ERR_BAD_STATEID)
                         else (Some (o, lf), compare_seq (s_seq s) (lf_seq lf))
       end.

(* clientIncarnationState.testStateID *)
Definition test_stateid (c : client) (s : stateid) : N :=
  if negb (s_hi s =? 0) then ERR_BAD_STATEID
  else match find_oofs (s_lo s) (c_oofs c) with
       | Some o => compare_seq (s_seq s) (of_seq o)
       | None => match find_lofs (s_lo s) (c_oofs c) with
                 | Some (_, lf) => compare_seq (s_seq s) (lf_seq lf)
                 | None => ERR_BAD_STATEID
                 end
       end.

(* ---- operations inside a SEQUENCE compound ------------------------------ *)
(* What a section of an operation yields. *)
Inductive opstep :=
| Done (r : opres)                 (* operation finished *)
| Pending (p : phase).             (* unlocked call made, second half pending *)

(* Did the section call into the file system (consume the oracle)?
   [FsQuiet]: through the handle resolver, which receives no context;
   [FsCall]: through a Directory/Leaf method that receives the context of
   the compound (the harness may park the goroutine there). *)
Inductive fsuse := FsNone | FsQuiet | FsCall.

(* Result of a section: state, updated file handles, step, outputs, use
   of the oracle. *)
Record secres := mkSec {
  sr_st : state; sr_cfh : fh; sr_sfh : fh; sr_step : opstep; sr_outs : list out; sr_fs : fsuse }.

Definition done (st : state) (cfh sfh : fh) (r : opres) :=
  mkSec st cfh sfh (Done r) [] FsNone.

Definition with_client (st : state) (cid : N) (c : client) : state :=
  set_clients st (upd_client c (st_clients st)).

Definition dir_status (f : fh) : N :=      (* nfs41FileHandle.getDirectory *)
  match f_node f with NDir _ => NFS4_OK | NLeaf _ => ERR_NOTDIR | NNone => ERR_NOFILEHANDLE end.
Definition leaf_status (f : fh) : N :=     (* nfs41FileHandle.getLeaf *)
  match f_node f with NDir _ => ERR_ISDIR | NLeaf _ => NFS4_OK | NNone => ERR_NOFILEHANDLE end.

Definition fs_status (o : fsres) : N :=
  match o with FsErr st => st | _ => NFS4_OK end.

(* First half of READ / WRITE / SETATTR with a regular state ID:
   getOpenedLeafWithRegularStateID. *)
Definition io_begin (opnum : N) (m : mask) (s : stateid) (c : client) (st : state) (cfh sfh : fh)
    : secres :=
  let fail st' := done st cfh sfh (RStatus opnum st') in
  let go (o : oofile) :=
    let '(rd, wr, pn) := sc_clone (of_readers o) (of_writers o) m in
    let o' := o_set o (of_seq o) (of_share o) rd wr (of_lofs o) (of_live o) in
    mkSec (add_panic (with_client st (c_id c) (c_set_oofs c (upd_oofs o' (c_oofs c)))) pn)
          cfh sfh (Pending (PhIoReg (of_other o) (of_handle o) m)) [] FsNone in
  match get_oofs c cfh s false with
  | (Some o, 0) => if m_empty (m_diff m (of_share o)) then go o else fail ERR_OPENMODE
  | (_, st') =>
    if st' =? ERR_BAD_STATEID then
      match get_lofs c cfh s with
      | (Some (o, lf), 0) => if m_empty (m_diff m (lf_share lf)) then go o else fail ERR_OPENMODE
      | (_, st'') => fail st''
      end
    else fail st'
  end.

(* Last part: the release of the clone (cleanup function), after the I/O
   itself returned status [iost]. *)
Definition io_end_reg (opnum other h : N) (m : mask) (iost : N) (c : client) (st : state)
    (cfh sfh : fh) : secres :=
  match find_oofs_any other (c_oofs c) with
  | Some o =>
    let '(o1, outs, pn) := oofs_downgrade o m m0 in
    mkSec (add_panic (with_client st (c_id c) (c_set_oofs c (upd_oofs o1 (c_oofs c)))) pn)
          cfh sfh (Done (RStatus opnum iost)) outs FsNone
  | None => mkSec (add_panic st true) cfh sfh (Done (RStatus opnum iost)) [] FsNone
  end.

(* LOCK once the open-owner file [o], the existing lock-owner file [lfo],
   the identity [oid] of the lock-owner object and, if that object is
   new, its entry [reg] for lockOwnersByOwner are known. *)
Definition op_lock_run (ltype off len : N) (c : client) (st : state) (cfh sfh : fh)
    (o : oofile) (lfo : option lofile) (oid : N) (reg : option lowner) : secres :=
  let fail st' := done st cfh sfh (RStatus OP_LOCK st') in
  match LS.offset_length_to_start_end off len with
  | None => fail ERR_INVAL
  | Some (s, e) =>
    match lock_type ltype with
    | None => fail ERR_INVAL
    | Some ty =>
      let q := LS.mkLock s e oid ty in
      let locks := pool_locks (of_handle o) (st_pool st) in
      match LS.test locks q with
      | Some cf => done st cfh sfh (denied_of OP_LOCK (st_clients st) cf)
      | None =>
        let r := LS.set locks q in
        let pool1 := pool_set_locks (of_handle o) (LS.set_list r) (st_pool st) in
        let '(lows1, nextlo1) :=
          match reg with
          | Some x => (c_lowners c ++ [x], st_nextlo st + 1)
          | None => (c_lowners c, st_nextlo st)
          end in
        (* Lock-owner file: create if needed. *)
        let '(lf, o1, lows2, other1, pn1) :=
          match lfo with
          | Some lf => (lf, o, lows1, c_other c, false)
          | None =>
            let '(rd, wr, pn) := sc_clone (of_readers o) (of_writers o) (of_share o) in
            let lf := mkLof (c_other c + 1) 0 oid (of_share o) 0 in
            (lf, o_set o (of_seq o) (of_share o) rd wr (of_lofs o ++ [lf]) (of_live o),
             lowner_inc oid lows1, c_other c + 1, pn)
          end in
        let cnt := (lf_count lf + LS.set_delta r)%Z in
        let lf1 := l_set lf (incr_seq (lf_seq lf)) cnt in
        let o2 := o_set o1 (of_seq o1) (of_share o1) (of_readers o1) (of_writers o1)
                        (upd_lofs lf1 (of_lofs o1)) (of_live o1) in
        let c1 := c_set_other (c_set_lowners (c_set_oofs c (upd_oofs o2 (c_oofs c))) lows2) other1 in
        let st1 := add_panic (set_nextlo (set_pool (with_client st (c_id c) c1) pool1) nextlo1)
                             (pn1 || (cnt <? 0)%Z || LS.set_panic r) in
        mkSec st1 (mkFh (f_node cfh) (lf_seq lf1) (lf_other lf1)) sfh
              (Done (RStateid OP_LOCK (lf_seq lf1) (lf_other lf1))) [] FsNone
      end
    end
  end.

Definition op_lock (ltype off len : N) (lk : locker) (c : client) (st : state) (cfh sfh : fh)
    : secres :=
  let fail st' := done st cfh sfh (RStatus OP_LOCK st') in
  match lk with
  | LockerNew osid key =>
    match get_oofs c cfh osid false with
    | (Some o, 0) =>
      match find_lowner_key key (c_lowners c) with
      | Some x => op_lock_run ltype off len c st cfh sfh o
                              (find (fun lf => lf_owner lf =? lo_id x) (of_lofs o)) (lo_id x) None
      | None => op_lock_run ltype off len c st cfh sfh o None (st_nextlo st)
                            (Some (mkLow (st_nextlo st) key 0))
      end
    | (_, st') => fail st'
    end
  | LockerExisting lsid =>
    match get_lofs c cfh lsid with
    | (Some (o, lf), 0) => op_lock_run ltype off len c st cfh sfh o (Some lf) (lf_owner lf) None
    | (_, st') => fail st'
    end
  end.

Definition op_lockt (ltype off len owner : N) (c : client) (st : state) (cfh sfh : fh) : secres :=
  let fail st' := done st cfh sfh (RStatus OP_LOCKT st') in
  if negb (leaf_status cfh =? NFS4_OK) then fail (leaf_status cfh) else
  let oid := match find_lowner_key owner (c_lowners c) with Some x => lo_id x | None => 0 end in
  match LS.offset_length_to_start_end off len with
  | None => fail ERR_INVAL
  | Some (s, e) =>
    match lock_type ltype with
    | None => fail ERR_INVAL
    | Some ty =>
      match LS.test (pool_locks (fh_handle cfh) (st_pool st)) (LS.mkLock s e oid ty) with
      | Some cf => done st cfh sfh (denied_of OP_LOCKT (st_clients st) cf)
      | None => fail NFS4_OK
      end
    end
  end.

Definition op_locku (s : stateid) (off len : N) (c : client) (st : state) (cfh sfh : fh) : secres :=
  let fail st' := done st cfh sfh (RStatus OP_LOCKU st') in
  match get_lofs c cfh s with
  | (Some (o, lf), 0) =>
    match LS.offset_length_to_start_end off len with
    | None => fail ERR_INVAL
    | Some (s, e) =>
      let r := LS.set (pool_locks (of_handle o) (st_pool st)) (LS.mkLock s e (lf_owner lf) LS.Unlocked) in
      let cnt := (lf_count lf + LS.set_delta r)%Z in
      let lf1 := l_set lf (incr_seq (lf_seq lf)) cnt in
      let o1 := o_set o (of_seq o) (of_share o) (of_readers o) (of_writers o)
                      (upd_lofs lf1 (of_lofs o)) (of_live o) in
      let st1 := add_panic (set_pool (with_client st (c_id c) (c_set_oofs c (upd_oofs o1 (c_oofs c))))
                                     (pool_set_locks (of_handle o) (LS.set_list r) (st_pool st)))
                           ((cnt <? 0)%Z || LS.set_panic r) in
      mkSec st1 (mkFh (f_node cfh) (lf_seq lf1) (lf_other lf1)) sfh
            (Done (RStateid OP_LOCKU (lf_seq lf1) (lf_other lf1))) [] FsNone
    end
  | (_, st') => fail st'
  end.

Definition op_free_stateid (s : stateid) (c : client) (st : state) (cfh sfh : fh) : secres :=
  let fail st' := done st cfh sfh (RStatus OP_FREE_STATEID st') in
  if negb (s_hi s =? 0) then fail ERR_BAD_STATEID else
  match find_lofs (s_lo s) (c_oofs c) with
  | None => fail ERR_BAD_STATEID
  | Some (o, lf) =>
    let cmp := compare_seq (s_seq s) (lf_seq lf) in
    if negb (cmp =? NFS4_OK) then fail cmp
    else if (0 <? lf_count lf)%Z then fail ERR_LOCKS_HELD
    else
      let '(o1, lows, pool1, outs, pn) := lofs_remove_all false [lf] o (c_lowners c) (st_pool st) in
      let st1 := add_panic (set_pool (with_client st (c_id c)
                              (c_set_lowners (c_set_oofs c (upd_oofs o1 (c_oofs c))) lows)) pool1) pn in
      mkSec st1 cfh sfh (Done (RStatus OP_FREE_STATEID NFS4_OK)) outs FsNone
  end.

Definition op_close (s : stateid) (c : client) (st : state) (cfh sfh : fh) : secres :=
  match get_oofs c cfh s true with
  | (Some o, 0) =>
    let '(c1, pool1, outs, pn) := oofs_remove o c (st_pool st) in
    mkSec (add_panic (set_pool (with_client st (c_id c) c1) pool1) pn) cfh sfh
          (Done (RStatus OP_CLOSE NFS4_OK)) outs FsNone
  | (_, st') => done st cfh sfh (RStatus OP_CLOSE st')
  end.

Definition op_open_downgrade (s : stateid) (access deny : N) (c : client) (st : state) (cfh sfh : fh)
    : secres :=
  let fail st' := done st cfh sfh (RStatus OP_OPEN_DOWNGRADE st') in
  match mask_of_N access with
  | None => fail ERR_INVAL
  | Some m =>
    match get_oofs c cfh s true with
    | (Some o, 0) =>
      if negb (m_empty (m_diff m (of_share o))) || negb (deny =? 0) then fail ERR_INVAL
      else
        let '(o1, outs, pn) := oofs_downgrade o (of_share o) m in
        let o2 := o_set o1 (incr_seq (of_seq o1)) m (of_readers o1) (of_writers o1) (of_lofs o1) (of_live o1) in
        mkSec (add_panic (with_client st (c_id c) (c_set_oofs c (upd_oofs o2 (c_oofs c)))) pn)
              (mkFh (f_node cfh) (of_seq o2) (of_other o2)) sfh
              (Done (RStateid OP_OPEN_DOWNGRADE (of_seq o2) (of_other o2))) outs FsNone
    | (_, st') => fail st'
    end
  end.

(* OPEN, first half: argument checks and the unlocked VirtualOpenChild /
   VirtualOpenSelf call (oracle). *)
Definition op_open_begin (access deny : N) (how : openhow) (cl : claim) (orc : fsres)
    (st : state) (cfh sfh : fh) : secres :=
  let fail st' := done st cfh sfh (RStatus OP_OPEN st') in
  match open_share access with
  | None => fail ERR_INVAL
  | Some m =>
    if (1 <=? deny) && (deny <=? 3) then fail ERR_SHARE_DENIED
    else if negb (deny =? 0) then fail ERR_INVAL
    else match how with
    | HowExclusive => fail ERR_INVAL
    | _ =>
      match cl with
      | ClaimNull name =>
        if negb (dir_status cfh =? NFS4_OK) then fail (dir_status cfh)
        else if name =? 0 then fail ERR_INVAL
        else match orc with
             | FsLeaf h => mkSec st cfh sfh (Pending (PhOpened h m)) [OLeafOpen h m] FsCall
             | FsErr st' => mkSec st cfh sfh (Done (RStatus OP_OPEN st')) [] FsCall
             | _ => mkSec st cfh sfh (Done (RStatus OP_OPEN ERR_ISDIR)) [] FsCall
             end
      | ClaimFH | ClaimPrev _ =>
        if negb (leaf_status cfh =? NFS4_OK) then fail (leaf_status cfh)
        else match how with
             | HowGuarded => fail ERR_EXIST
             | _ =>
               match orc with
               | FsErr st' => mkSec st cfh sfh (Done (RStatus OP_OPEN st')) [] FsCall
               | _ => mkSec st cfh sfh (Pending (PhOpened (fh_handle cfh) m))
                            [OLeafOpen (fh_handle cfh) m] FsCall
               end
             end
      | ClaimDelegCur => fail ERR_RECLAIM_BAD
      | ClaimDelegPrev => fail ERR_NOTSUPP
      | ClaimOther => fail ERR_INVAL
      end
    end
  end.

(* OPEN, second half (under cis.lock). *)
Definition op_open_end (owner : N) (cl : claim) (h : N) (m : mask) (c : client) (st : state)
    (cfh sfh : fh) : secres :=
  let finish (o : oofile) (c0 : client) (pool0 : list pfile) :=
    let '(sa, rd, wr, ov) := sc_upgrade (of_share o) (of_readers o) (of_writers o) m in
    let o1 := o_set o (incr_seq (of_seq o)) sa rd wr (of_lofs o) (of_live o) in
    mkSec (set_pool (with_client st (c_id c) (c_set_oofs c0 (upd_oofs o1 (c_oofs c0)))) pool0)
          (mkFh (NLeaf h) (of_seq o1) (of_other o1)) sfh
          (Done (RStateid OP_OPEN (of_seq o1) (of_other o1))) (close_out h ov) FsNone in
  match cl with
  | ClaimPrev dn =>
    match find_oofs_oh owner h (c_oofs c) with
    | Some o => if dn then finish o c (st_pool st)
                else mkSec st cfh sfh (Done (RStatus OP_OPEN ERR_RECLAIM_BAD)) (close_out h m) FsNone
    | None => mkSec st cfh sfh (Done (RStatus OP_OPEN ERR_RECLAIM_BAD)) (close_out h m) FsNone
    end
  | _ =>
    match find_oofs_oh owner h (c_oofs c) with
    | Some o => finish o c (st_pool st)
    | None =>
      let o := mkOof (c_other c + 1) 0 owner h m0 0 0 [] true in
      finish o (c_set_other (c_set_oofs c (c_oofs c ++ [o])) (c_other c + 1)) (pool_open h (st_pool st))
    end
  end.

(* One section of operation [o] of a compound of client [c]. *)
Definition op_section (o : op) (ph : phase) (orc : fsres) (c : client) (st : state) (cfh sfh : fh)
    : secres :=
  match ph with
  | PhOpened h m =>
    match o with
    | OOpen owner _ _ _ cl => op_open_end owner cl h m c st cfh sfh
    | _ => done (add_panic st true) cfh sfh (RStatus (argop o) NFS4_OK)
    end
  | PhIoReg other h m =>
    (* the I/O itself: VirtualRead / VirtualWrite / VirtualSetAttributes *)
    mkSec st cfh sfh (Pending (PhIoRegDone other h m (fs_status orc))) [] FsCall
  | PhIoAnon h m =>
    mkSec st cfh sfh (Pending (PhIoAnonDone h m (fs_status orc))) [] FsCall
  | PhIoRegDone other h m iost => io_end_reg (argop o) other h m iost c st cfh sfh
  | PhIoAnonDone h m iost =>
    mkSec st cfh sfh (Done (RStatus (argop o) iost)) [OLeafClose h m] FsNone
  | PhNone =>
    match o with
    | OPutRootFH => done st (mkFh (NDir 0) 0 0) sfh (RStatus OP_PUTROOTFH NFS4_OK)
    | OPutFH h =>
      match find_pfile h (st_pool st) with
      | Some _ => done st (mkFh (NLeaf h) 0 0) sfh (RStatus OP_PUTFH NFS4_OK)
      | None =>
        match orc with
        | FsErr st' => mkSec st cfh sfh (Done (RStatus OP_PUTFH st')) [] FsQuiet
        | FsDir _ => mkSec st (mkFh (NDir h) 0 0) sfh (Done (RStatus OP_PUTFH NFS4_OK)) [] FsQuiet
        | _ => mkSec st (mkFh (NLeaf h) 0 0) sfh (Done (RStatus OP_PUTFH NFS4_OK)) [] FsQuiet
        end
      end
    | OLookup name =>
      if negb (dir_status cfh =? NFS4_OK) then done st cfh sfh (RStatus OP_LOOKUP (dir_status cfh))
      else if name =? 0 then done st cfh sfh (RStatus OP_LOOKUP ERR_INVAL)
      else match orc with
           | FsLeaf h => mkSec st (mkFh (NLeaf h) 0 0) sfh (Done (RStatus OP_LOOKUP NFS4_OK)) [] FsCall
           | FsDir h => mkSec st (mkFh (NDir h) 0 0) sfh (Done (RStatus OP_LOOKUP NFS4_OK)) [] FsCall
           | FsErr st' => mkSec st cfh sfh (Done (RStatus OP_LOOKUP st')) [] FsCall
           | FsOk => mkSec st cfh sfh (Done (RStatus OP_LOOKUP ERR_NOENT)) [] FsCall
           end
    | OGetFH =>
      if fh_set cfh then done st cfh sfh (RGetFH (fh_handle cfh))
      else done st cfh sfh (RStatus OP_GETFH ERR_NOFILEHANDLE)
    | OSaveFH =>
      if fh_set cfh then done st cfh cfh (RStatus OP_SAVEFH NFS4_OK)
      else done st cfh sfh (RStatus OP_SAVEFH ERR_NOFILEHANDLE)
    | ORestoreFH =>
      if fh_set sfh then done st sfh sfh (RStatus OP_RESTOREFH NFS4_OK)
      else done st cfh sfh (RStatus OP_RESTOREFH ERR_RESTOREFH)
    | OGetattr =>
      done st cfh sfh (RStatus OP_GETATTR (if fh_set cfh then NFS4_OK else ERR_NOFILEHANDLE))
    | ORemove name =>
      if negb (dir_status cfh =? NFS4_OK) then done st cfh sfh (RStatus OP_REMOVE (dir_status cfh))
      else if name =? 0 then done st cfh sfh (RStatus OP_REMOVE ERR_INVAL)
      else mkSec st cfh sfh (Done (RStatus OP_REMOVE (fs_status orc))) [] FsCall
    | OOpen _ access deny how cl => op_open_begin access deny how cl orc st cfh sfh
    | OOpenDowngrade s access deny => op_open_downgrade s access deny c st cfh sfh
    | OClose s => op_close s c st cfh sfh
    | OLock ltype off len lk => op_lock ltype off len lk c st cfh sfh
    | OLockT ltype off len owner => op_lockt ltype off len owner c st cfh sfh
    | OLockU s off len => op_locku s off len c st cfh sfh
    | ORead s =>
      if sid_special s then
        if negb (leaf_status cfh =? NFS4_OK) then done st cfh sfh (RStatus OP_READ (leaf_status cfh))
        else match orc with
             | FsErr st' => mkSec st cfh sfh (Done (RStatus OP_READ st')) [] FsCall
             | _ => mkSec st cfh sfh (Pending (PhIoAnon (fh_handle cfh) mR))
                          [OLeafOpen (fh_handle cfh) mR] FsCall
             end
      else io_begin OP_READ mR s c st cfh sfh
    | OWrite s =>
      if sid_special s then
        if negb (leaf_status cfh =? NFS4_OK) then done st cfh sfh (RStatus OP_WRITE (leaf_status cfh))
        else match orc with
             | FsErr st' => mkSec st cfh sfh (Done (RStatus OP_WRITE st')) [] FsCall
             | _ => mkSec st cfh sfh (Pending (PhIoAnon (fh_handle cfh) mW))
                          [OLeafOpen (fh_handle cfh) mW] FsCall
             end
      else io_begin OP_WRITE mW s c st cfh sfh
    | OSetattr s =>
      if sid_special s then
        if fh_set cfh then mkSec st cfh sfh (Done (RStatus OP_SETATTR (fs_status orc))) [] FsCall
        else done st cfh sfh (RStatus OP_SETATTR ERR_NOFILEHANDLE)
      else io_begin OP_SETATTR mW s c st cfh sfh
    | OFreeStateid s => op_free_stateid s c st cfh sfh
    | OTestStateid l => done st cfh sfh (RTestStateid (map (test_stateid c) l))
    | ODelegPurge => done st cfh sfh (RStatus OP_DELEGPURGE ERR_NOTSUPP)
    | ONestedSequence => done st cfh sfh (RStatus OP_SEQUENCE ERR_SEQUENCE_POS)
    | OIllegal => done st cfh sfh (RStatus OP_ILLEGAL ERR_OP_ILLEGAL)
    | OBindConn => done st cfh sfh (RStatus OP_BIND_CONN_TO_SESSION ERR_NOT_ONLY_OP)
    | OExchangeId ow v =>
      let '(st1, outs, r) := op_exchange_id ow v st in mkSec st1 cfh sfh (Done r) outs FsNone
    | OCreateSession ci sq =>
      let '(st1, outs, r) := op_create_session ci sq st in mkSec st1 cfh sfh (Done r) outs FsNone
    | ODestroySession i =>
      let '(st1, outs, r) := op_destroy_session i st in mkSec st1 cfh sfh (Done r) outs FsNone
    | ODestroyClientid i =>
      let '(st1, outs, r) := op_destroy_clientid i st in mkSec st1 cfh sfh (Done r) outs FsNone
    end
  end.

(* The next section of in-flight compound [tid].  The boolean tells whether
   the oracle was consumed. *)
Definition section (tid : N) (orc : fsres) (st : state) : state * list out * fsuse :=
  match find_thread tid (st_threads st) with
  | None => (st, [], FsNone)
  | Some t =>
    match t_ops t with
    | [] => let '(st1, outs) := seq_end t st in (st1, outs, FsNone)
    | o :: rest =>
      match find_client (t_client t) (st_clients st) with
      | None => (add_panic st true, [], FsNone)
      | Some c =>
        let r := op_section o (t_phase t) orc c st (t_cfh t) (t_sfh t) in
        let t' :=
          match sr_step r with
          | Pending ph =>
            mkThread (t_id t) (t_sess t) (t_slot t) (t_seq t) (t_cache t) (t_client t) (t_ops t)
                     (t_res t) (t_status t) (sr_cfh r) (sr_sfh r) ph (t_waiters t)
          | Done res =>
            let stt := res_status res in
            mkThread (t_id t) (t_sess t) (t_slot t) (t_seq t) (t_cache t) (t_client t)
                     (if stt =? NFS4_OK then rest else [])
                     (t_res t ++ [res]) stt (sr_cfh r) (sr_sfh r) PhNone (t_waiters t)
          end in
        (set_threads (sr_st r) (upd_thread t' (st_threads (sr_st r))), sr_outs r, sr_fs r)
      end
    end
  end.

(* ---- events ------------------------------------------------------------- *)
Inductive event :=
| EAdvance (d : N)
| ESolo (tid : N) (s : solo)
| ESeqBegin (tid sess slot seq : N) (cache : bool) (ops : list op)
| ESection (tid : N) (orc : fsres).

(* Compound identifiers are labels chosen by the environment; a label that
   is still in use (compound in flight or waiting) is not accepted again. *)
Definition tid_used (tid : N) (st : state) : bool :=
  existsb (fun t => (t_id t =? tid) || existsb (N.eqb tid) (t_waiters t)) (st_threads st).

Definition step (st : state) (e : event) : state * list out :=
  match e with
  | EAdvance d => (set_clock st (st_clock st + d), [])
  | ESolo tid s => solo_step tid s st
  | ESeqBegin tid sess sl sq cache ops =>
    if tid_used tid st then (st, []) else seq_begin tid sess sl sq cache ops st
  | ESection tid orc => let '(st1, outs, _) := section tid orc st in (st1, outs)
  end.

Fixpoint run (st : state) (evs : list event) : state * list out :=
  match evs with
  | [] => (st, [])
  | e :: tl => let '(st1, o1) := step st e in
               let '(st2, o2) := run st1 tl in (st2, o1 ++ o2)
  end.

(* The trace: every event with its outputs and the state it leads to. *)
Fixpoint trace (st : state) (evs : list event) : list (state * event * list out * state) :=
  match evs with
  | [] => []
  | e :: tl => let '(st1, o1) := step st e in (st, e, o1, st1) :: trace st1 tl
  end.
