(* Refinement, part 3: the operations inside a SEQUENCE compound, and the
   events of the model. *)
From VF Require Export Nfs41.Proofs2Refine2.
From VF Require Import Nfs41.ProofsThreads.
Open Scope N_scope.

Lemma downgrade_vo : forall o sa nsa o1 outs pn,
  oofs_downgrade o sa nsa = (o1, outs, pn) ->
  vo o1 = vo o /\ of_other o1 = of_other o /\ of_lofs o1 = of_lofs o /\ of_live o1 = of_live o
  /\ of_handle o1 = of_handle o.
Proof.
  intros o sa nsa o1 outs pn H. unfold oofs_downgrade in H.
  destruct (sc_downgrade _ _ _ _) as [[[rd wr] bz] pn0]. inversion H; subst. cbn. auto.
Qed.

(* What is known about the byte ranges of the LOCK / LOCKU requests. *)
Definition req_ok (Q : LS.lock -> Prop) (off len : N) : Prop :=
  forall s e oid ty, LS.offset_length_to_start_end off len = Some (s, e) -> Q (LS.mkLock s e oid ty).
Definition op_ok (Q : LS.lock -> Prop) (o : op) : Prop :=
  match o with
  | OLock _ off len _ => req_ok Q off len
  | OLockU _ off len => req_ok Q off len
  | _ => True
  end.

Section CisLock.
  Variable Q : LS.lock -> Prop.
  Variables (st : state) (c : client).
  Hypothesis I : acct_inv st.
  Hypothesis Hfc : find_client (c_id c) (st_clients st) = Some c.

  Let Hcin : In c (st_clients st).
  Proof. rewrite find_client_k in Hfc. eapply kfind_in; eauto. Qed.
  Let Hoo : NoDup (map of_other (c_oofs c)).
  Proof. exact (proj1 (acct_lofs_nodup st c I Hcin)). Qed.
  Let Hln : lofs_nodup c.
  Proof. exact (proj2 (acct_lofs_nodup st c I Hcin)). Qed.
  Let Hcls : NoDup (map vc_id (map vc (st_clients st))).
  Proof. rewrite (map_keys c_id vc_id vc vc_key). exact (proj1 I). Qed.
  Let Hvfc : kfind vc_id (c_id c) (map vc (st_clients st)) = Some (vc c).
  Proof. apply vfind_client. exact Hfc. Qed.

  Lemma bounds_of : forall o, In o (c_oofs c) ->
    of_other o <= c_other c /\ forall lf, In lf (of_lofs o) -> lf_other lf <= c_other c.
  Proof.
    intros o Ho. destruct I as [_ [_ [I3 _]]]. destruct (I3 c Hcin) as [_ [N2 _]].
    destruct (N2 o Ho) as [B _]. exact B.
  Qed.

  Lemma get_oofs_found : forall cfh s w o stt, get_oofs c cfh s w = (Some o, stt) ->
    find_oofs_any (of_other o) (c_oofs c) = Some o /\ of_live o = true /\ In o (c_oofs c).
  Proof.
    intros cfh s w o stt H. destruct (get_oofs_some _ _ _ _ _ _ Hoo H) as [H1 H2].
    split; [exact H1|]. split; [exact H2|]. rewrite find_oofs_any_k in H1. eapply kfind_in; eauto.
  Qed.

  Lemma get_lofs_found : forall cfh s o lf stt, get_lofs c cfh s = (Some (o, lf), stt) ->
    find_oofs_any (of_other o) (c_oofs c) = Some o /\ of_live o = true /\ In o (c_oofs c)
    /\ kfind lf_other (lf_other lf) (of_lofs o) = Some lf.
  Proof.
    intros cfh s o lf stt H. destruct (get_lofs_some _ _ _ _ _ _ H) as [H1 [H2 H3]].
    split; [apply in_find_oofs_any; assumption|]. split; [exact H2|]. split; [exact H1|].
    apply kfind_in_nodup; [apply Hln; exact H1|exact H3].
  Qed.

  Lemma find_lofs_found : forall k o lf, find_lofs k (c_oofs c) = Some (o, lf) ->
    find_oofs_any (of_other o) (c_oofs c) = Some o /\ of_live o = true /\ In o (c_oofs c)
    /\ kfind lf_other (lf_other lf) (of_lofs o) = Some lf.
  Proof.
    intros k o lf H. destruct (find_lofs_some _ _ _ _ H) as [H1 [H2 [H3 _]]].
    split; [apply in_find_oofs_any; assumption|]. split; [exact H2|]. split; [exact H1|].
    apply kfind_in_nodup; [apply Hln; exact H1|exact H3].
  Qed.

  (* The state after the client record was replaced. *)
  Lemma view_put : forall st' c1 pool nextlo,
    st_clients st' = upd_client c1 (st_clients st) -> st_pool st' = pool -> st_nextlo st' = nextlo ->
    view st' = vput (view st) (vc c1) pool nextlo.
  Proof.
    intros st' c1 pool nextlo H1 H2 H3. unfold view, vput. rewrite H1, H2, H3. cbn [v_cls].
    rewrite vc_upd_client. reflexivity.
  Qed.

  (* Only counters, sequence numbers, share masks of an open-owner file change. *)
  Lemma oofs_frame_view : forall o o' st',
    find_oofs_any (of_other o) (c_oofs c) = Some o -> of_other o' = of_other o -> vo o' = vo o ->
    st_clients st' = upd_client (c_set_oofs c (upd_oofs o' (c_oofs c))) (st_clients st) ->
    st_pool st' = st_pool st -> st_nextlo st' = st_nextlo st ->
    view st' = view st.
  Proof.
    intros o o' st' Hf E1 E2 H1 H2 H3. unfold view. rewrite H1, H2, H3. f_equal.
    apply (vc_upd_same _ c); [exact (proj1 I)|exact Hfc|].
    unfold vc. cbn [c_id c_oofs c_lowners c_set_oofs]. f_equal.
    apply (vo_upd_same o' o); [exact Hoo|rewrite E1; exact Hf|exact E2].
  Qed.

  Lemma io_begin_view : forall opnum m s cfh sfh, view (sr_st (io_begin opnum m s c st cfh sfh)) = view st.
  Proof.
    intros opnum m s cfh sfh. unfold io_begin, done.
    assert (G : forall o, find_oofs_any (of_other o) (c_oofs c) = Some o ->
              view (sr_st (let '(rd, wr, pn) := sc_clone (of_readers o) (of_writers o) m in
                           let o' := o_set o (of_seq o) (of_share o) rd wr (of_lofs o) (of_live o) in
                           mkSec (add_panic (with_client st (c_id c) (c_set_oofs c (upd_oofs o' (c_oofs c)))) pn)
                                 cfh sfh (Pending (PhIoReg (of_other o) (of_handle o) m)) [] FsNone)) = view st).
    { intros o Hf. destruct (sc_clone _ _ _) as [[rd wr] pn]. cbn [sr_st].
      eapply (oofs_frame_view o (o_set o (of_seq o) (of_share o) rd wr (of_lofs o) (of_live o))); eauto; reflexivity. }
    destruct (get_oofs c cfh s false) as [[o|] stt] eqn:E1.
    - destruct (get_oofs_found _ _ _ _ _ E1) as [F1 _].
      destruct stt as [|p].
      + destruct (m_empty _); [apply G; exact F1|reflexivity].
      + destruct (N.pos p =? ERR_BAD_STATEID); [|reflexivity].
        destruct (get_lofs c cfh s) as [[[o2 lf]|] stt2] eqn:E2; [|reflexivity].
        destruct (get_lofs_found _ _ _ _ _ E2) as [F2 _].
        destruct stt2; [|reflexivity]. destruct (m_empty _); [apply G; exact F2|reflexivity].
    - destruct (stt =? ERR_BAD_STATEID); [|reflexivity].
      destruct (get_lofs c cfh s) as [[[o2 lf]|] stt2] eqn:E2; [|reflexivity].
      destruct (get_lofs_found _ _ _ _ _ E2) as [F2 _].
      destruct stt2; [|reflexivity]. destruct (m_empty _); [apply G; exact F2|reflexivity].
  Qed.

  Lemma io_end_reg_view : forall opnum other h m iost cfh sfh,
    view (sr_st (io_end_reg opnum other h m iost c st cfh sfh)) = view st.
  Proof.
    intros. unfold io_end_reg. destruct (find_oofs_any other (c_oofs c)) as [o|] eqn:Ef; [|reflexivity].
    destruct (oofs_downgrade o m m0) as [[o1 outs] pn] eqn:Ed. cbn [sr_st].
    destruct (downgrade_vo _ _ _ _ _ _ Ed) as [V1 [V2 _]].
    assert (Ho : of_other o = other) by (rewrite find_oofs_any_k in Ef; eapply kfind_key; eauto).
    eapply (oofs_frame_view o o1); eauto; try reflexivity. rewrite Ho. exact Ef.
  Qed.

  Lemma op_open_downgrade_view : forall s a d cfh sfh,
    view (sr_st (op_open_downgrade s a d c st cfh sfh)) = view st.
  Proof.
    intros. unfold op_open_downgrade, done. destruct (mask_of_N a) as [m|]; [|reflexivity].
    destruct (get_oofs c cfh s true) as [[o|] stt] eqn:E1; [|reflexivity].
    destruct (get_oofs_found _ _ _ _ _ E1) as [F1 _].
    destruct stt; [|reflexivity]. destruct (_ || _); [reflexivity|].
    destruct (oofs_downgrade o (of_share o) m) as [[o1 outs] pn] eqn:Ed. cbn [sr_st].
    destruct (downgrade_vo _ _ _ _ _ _ Ed) as [V1 [V2 [V3 [V4 V5]]]].
    eapply (oofs_frame_view o (o_set o1 (incr_seq (of_seq o1)) m (of_readers o1) (of_writers o1) (of_lofs o1) (of_live o1)));
      eauto; try reflexivity.
  Qed.

  (* ---- OPEN -------------------------------------------------------------------------- *)
  Lemma op_open_end_view : forall owner cl h m cfh sfh,
    vpath Q (view st) (view (sr_st (op_open_end owner cl h m c st cfh sfh))).
  Proof.
    intros owner cl h m cfh sfh. unfold op_open_end.
    (* an existing open-owner file *)
    assert (G1 : forall o, In o (c_oofs c) ->
              vpath Q (view st)
                (view (sr_st (let '(sa, rd, wr, ov) := sc_upgrade (of_share o) (of_readers o) (of_writers o) m in
                              let o1 := o_set o (incr_seq (of_seq o)) sa rd wr (of_lofs o) (of_live o) in
                              mkSec (set_pool (with_client st (c_id c) (c_set_oofs c (upd_oofs o1 (c_oofs c)))) (st_pool st))
                                    (mkFh (NLeaf h) (of_seq o1) (of_other o1)) sfh
                                    (Done (RStateid OP_OPEN (of_seq o1) (of_other o1))) (close_out h ov) FsNone)))).
    { intros o Ho. destruct (sc_upgrade _ _ _ _) as [[[sa rd] wr] ov]. cbn [sr_st]. apply vpath_eq. symmetry.
      eapply (oofs_frame_view o (o_set o (incr_seq (of_seq o)) sa rd wr (of_lofs o) (of_live o))); eauto; try reflexivity.
      apply in_find_oofs_any; assumption. }
    (* a new one *)
    assert (G2 : vpath Q (view st)
                (view (sr_st (let o := mkOof (c_other c + 1) 0 owner h m0 0 0 [] true in
                              let c0 := c_set_other (c_set_oofs c (c_oofs c ++ [o])) (c_other c + 1) in
                              let '(sa, rd, wr, ov) := sc_upgrade (of_share o) (of_readers o) (of_writers o) m in
                              let o1 := o_set o (incr_seq (of_seq o)) sa rd wr (of_lofs o) (of_live o) in
                              mkSec (set_pool (with_client st (c_id c) (c_set_oofs c0 (upd_oofs o1 (c_oofs c0))))
                                              (pool_open h (st_pool st)))
                                    (mkFh (NLeaf h) (of_seq o1) (of_other o1)) sfh
                                    (Done (RStateid OP_OPEN (of_seq o1) (of_other o1))) (close_out h ov) FsNone)))).
    { cbn zeta. destruct (sc_upgrade _ _ _ _) as [[[sa rd] wr] ov]. cbn [sr_st]. apply vpath_one.
      pose proof (vt_open Q (view st) (vc c) (c_other c + 1) h) as T. cbn [vc vc_id vc_oofs vc_lows] in T.
      assert (Hfresh : forall o, In o (map vo (c_oofs c)) -> vo_other o <> c_other c + 1).
      { intros o Ho. apply in_map_iff in Ho. destruct Ho as [o0 [<- Ho0]]. cbn [vo vo_other].
        destruct (bounds_of o0 Ho0) as [B _]. lia. }
      specialize (T Hvfc Hfresh).
      match goal with |- vtr _ _ (view ?s0) => rewrite (view_put s0 _ (pool_open h (st_pool st)) (st_nextlo st) eq_refl eq_refl eq_refl) end.
      match goal with |- vtr _ _ (vput _ ?x _ _) =>
        replace x with (mkVC (c_id c) (map vo (c_oofs c) ++ [mkVO (c_other c + 1) h true []]) (c_lowners c)); [exact T|] end.
      unfold vc. cbn [c_id c_oofs c_lowners c_set_oofs c_set_other]. f_equal.
      rewrite vo_upd_oofs, map_app. cbn [map].
      rewrite (kupd_snoc_fresh vo_other); [reflexivity|reflexivity|].
      intros y Hy. apply Hfresh in Hy. cbn. exact Hy. }
    destruct cl; try (destruct (find_oofs_oh owner h (c_oofs c)) as [o|] eqn:Ef;
                      [apply G1; unfold find_oofs_oh in Ef; apply find_some in Ef; tauto|exact G2]).
    destruct (find_oofs_oh owner h (c_oofs c)) as [o|] eqn:Ef; [|apply vp_refl].
    destruct deleg_none; [|apply vp_refl]. apply G1. unfold find_oofs_oh in Ef. apply find_some in Ef. tauto.
  Qed.

  (* ---- CLOSE, FREE_STATEID ------------------------------------------------------------ *)
  Lemma op_close_view : forall s cfh sfh, vpath Q (view st) (view (sr_st (op_close s c st cfh sfh))).
  Proof.
    intros. unfold op_close, done. destruct (get_oofs c cfh s true) as [[o|] stt] eqn:E1; [|apply vp_refl].
    destruct (get_oofs_found _ _ _ _ _ E1) as [F1 [F2 F3]].
    destruct stt; [|apply vp_refl].
    destruct (oofs_remove o c (st_pool st)) as [[[c1 pool1] outs] pn] eqn:Er. cbn [sr_st].
    destruct (oofs_remove_view Q _ (st_nextlo st) _ _ _ _ _ _ _ Er Hcls Hvfc Hoo Hln F1 F2) as [P _].
    match goal with |- vpath _ _ (view ?s0) => rewrite (view_put s0 c1 pool1 (st_nextlo st) eq_refl eq_refl eq_refl) end.
    exact P.
  Qed.

  Lemma S_start : forall pool, S (map vc (st_clients st)) (st_nextlo st) (c_id c) (map vo (c_oofs c)) (c_lowners c) pool
                               = mkV (map vc (st_clients st)) pool (st_nextlo st).
  Proof.
    intros. unfold S. f_equal. change (mkVC (c_id c) (map vo (c_oofs c)) (c_lowners c)) with (vc c).
    apply (kupd_same vc_id _ (vc c) Hcls). exact Hvfc.
  Qed.

  Lemma op_free_stateid_view : forall s cfh sfh, vpath Q (view st) (view (sr_st (op_free_stateid s c st cfh sfh))).
  Proof.
    intros. unfold op_free_stateid, done. destruct (negb (s_hi s =? 0)); [apply vp_refl|].
    destruct (find_lofs (s_lo s) (c_oofs c)) as [[o lf]|] eqn:Ef; [|apply vp_refl].
    destruct (find_lofs_found _ _ _ Ef) as [F1 [F2 [F3 F4]]].
    destruct (negb (_ =? NFS4_OK)); [apply vp_refl|]. destruct (0 <? lf_count lf)%Z eqn:Egate; [apply vp_refl|].
    destruct (lofs_remove_all false [lf] o (c_lowners c) (st_pool st)) as [[[[o1 lows] pool1] outs] pn] eqn:Er.
    cbn [sr_st].
    assert (Hfound : exists c0, kfind vc_id (c_id c) (map vc (st_clients st)) = Some c0) by eauto.
    assert (Hvoo : NoDup (map vo_other (map vo (c_oofs c)))) by (rewrite (map_keys of_other vo_other vo vo_key); exact Hoo).
    assert (Hall : forall lf0, In lf0 [lf] -> kfind lf_other (lf_other lf0) (of_lofs o) = Some lf0).
    { intros lf0 [<-|[]]. exact F4. }
    assert (Hnd1 : NoDup (map lf_other [lf])) by (cbn; constructor; [intros []|constructor]).
    assert (Hgate : false = false -> forall lf0, In lf0 [lf] -> (lf_count lf0 <= 0)%Z).
    { intros _ lf0 [<-|[]]. apply Z.ltb_ge in Egate. exact Egate. }
    destruct (lofs_rm_view Q _ (st_nextlo st) (c_id c) Hfound false [lf] o (c_lowners c) (st_pool st) o1 lows pool1 outs pn
                Er F2 Hnd1 Hall Hgate (map vo (c_oofs c)) Hvoo (vfind_oofs _ _ _ F1))
      as [P _].
    rewrite S_start in P.
    match goal with |- vpath _ _ (view ?s0) => rewrite (view_put s0 _ pool1 (st_nextlo st) eq_refl eq_refl eq_refl) end.
    eapply vpath_trans; [exact P|]. apply vpath_eq. unfold S, vput. cbn [v_cls view]. f_equal.
    unfold vc. cbn [c_id c_oofs c_lowners c_set_oofs c_set_lowners]. rewrite vo_upd_oofs. reflexivity.
  Qed.

  (* ---- LOCKU, LOCK ---------------------------------------------------------------------- *)
  Lemma vc_lock_shape : forall o2 lows other1,
    vc (c_set_other (c_set_lowners (c_set_oofs c (upd_oofs o2 (c_oofs c))) lows) other1)
    = mkVC (c_id c) (kupd vo_other (vo o2) (map vo (c_oofs c))) lows.
  Proof. intros. unfold vc. cbn [c_id c_oofs c_lowners c_set_other c_set_lowners c_set_oofs]. rewrite vo_upd_oofs. reflexivity. Qed.

  Lemma op_locku_view : forall s off len cfh sfh, req_ok Q off len ->
    vpath Q (view st) (view (sr_st (op_locku s off len c st cfh sfh))).
  Proof.
    intros s off len cfh sfh Hq. unfold op_locku, done.
    destruct (get_lofs c cfh s) as [[[o lf]|] stt] eqn:E; [|apply vp_refl].
    destruct (get_lofs_found _ _ _ _ _ E) as [F1 [F2 [F3 F4]]]. destruct stt; [|apply vp_refl].
    destruct (LS.offset_length_to_start_end off len) as [[s0 e0]|] eqn:Eo; [|apply vp_refl].
    cbn [sr_st]. apply vpath_one.
    set (q := LS.mkLock s0 e0 (lf_owner lf) LS.Unlocked).
    pose proof (vt_set Q (view st) (vc c) (vo o) (vl lf) q Hvfc (vfind_oofs _ _ _ F1) F2 (vfind_lofs _ _ _ F4)
                  eq_refl (Hq s0 e0 (lf_owner lf) LS.Unlocked Eo)) as T.
    assert (Hu : LS.ltyp q <> LS.Unlocked -> LS.test (pool_locks (vo_handle (vo o)) (v_pool (view st))) q = None).
    { intros Hne. exfalso. apply Hne. reflexivity. }
    specialize (T Hu).
    match goal with |- vtr _ _ (view ?s1) =>
      rewrite (view_put s1 _ (st_pool s1) (st_nextlo st) eq_refl eq_refl eq_refl) end.
    cbn [st_pool set_pool add_panic with_client set_clients].
    match goal with |- vtr _ _ (vput _ ?x _ _) =>
      replace x with (cput (vc c) (oput (vo o) (mkVL (vl_other (vl lf)) (vl_owner (vl lf))
                        (vl_count (vl lf) + LS.set_delta (LS.set (pool_locks (vo_handle (vo o)) (v_pool (view st))) q))))) end.
    - exact T.
    - unfold vc, cput, oput. cbn [c_id c_oofs c_lowners c_set_oofs vc_id vc_oofs vc_lows]. f_equal.
      rewrite vo_upd_oofs. f_equal. unfold vo. cbn [of_other of_handle of_live of_lofs o_set vo_other vo_handle vo_live vo_lofs].
      rewrite vl_upd_lofs. reflexivity.
  Qed.

  Lemma lock_run_existing : forall lt off len cfh sfh o lf,
    req_ok Q off len ->
    find_oofs_any (of_other o) (c_oofs c) = Some o -> of_live o = true ->
    kfind lf_other (lf_other lf) (of_lofs o) = Some lf ->
    vpath Q (view st) (view (sr_st (op_lock_run lt off len c st cfh sfh o (Some lf) (lf_owner lf) None))).
  Proof.
    intros lt off len cfh sfh o lf Hq F1 F2 F4. unfold op_lock_run, done.
    destruct (LS.offset_length_to_start_end off len) as [[s0 e0]|] eqn:Eo; [|apply vp_refl].
    destruct (lock_type lt) as [ty|] eqn:Et; [|apply vp_refl].
    destruct (LS.test _ _) as [cf|] eqn:Etest; [apply vp_refl|].
    cbv beta iota zeta. cbn [sr_st]. apply vpath_one.
    set (q := LS.mkLock s0 e0 (lf_owner lf) ty) in *.
    pose proof (vt_set Q (view st) (vc c) (vo o) (vl lf) q Hvfc (vfind_oofs _ _ _ F1) F2 (vfind_lofs _ _ _ F4)
                  eq_refl (Hq s0 e0 (lf_owner lf) ty Eo) (fun _ => Etest)) as T.
    match goal with |- vtr _ _ (view ?s1) =>
      rewrite (view_put s1 _ (st_pool s1) (st_nextlo st) eq_refl eq_refl eq_refl) end.
    cbn [st_pool set_pool add_panic with_client set_clients set_nextlo].
    rewrite vc_lock_shape.
    match goal with |- vtr _ _ (vput _ ?x _ _) =>
      replace x with (cput (vc c) (oput (vo o) (mkVL (vl_other (vl lf)) (vl_owner (vl lf))
                        (vl_count (vl lf) + LS.set_delta (LS.set (pool_locks (vo_handle (vo o)) (v_pool (view st))) q))))) end.
    - exact T.
    - unfold vc, cput, oput. cbn [vc_id vc_oofs vc_lows]. f_equal. f_equal.
      unfold vo. cbn [of_other of_handle of_live of_lofs o_set vo_other vo_handle vo_live vo_lofs].
      rewrite vl_upd_lofs. reflexivity.
  Qed.

  Lemma lock_run_new : forall lt off len cfh sfh o oid reg,
    req_ok Q off len ->
    find_oofs_any (of_other o) (c_oofs c) = Some o -> of_live o = true ->
    match reg with
    | Some x => lo_id x = st_nextlo st /\ oid = st_nextlo st /\ lo_files x = 0
                /\ find_lowner_key (lo_key x) (c_lowners c) = None
    | None => (exists x, In x (c_lowners c) /\ lo_id x = oid)
              /\ forall lf, In lf (of_lofs o) -> lf_owner lf <> oid
    end ->
    vstep Q (view st) (view (sr_st (op_lock_run lt off len c st cfh sfh o None oid reg))).
  Proof.
    intros lt off len cfh sfh o oid reg Hq F1 F2 Hreg. unfold op_lock_run, done.
    destruct (LS.offset_length_to_start_end off len) as [[s0 e0]|] eqn:Eo; [|apply vstep_path, vp_refl].
    destruct (lock_type lt) as [ty|] eqn:Et; [|apply vstep_path, vp_refl].
    destruct (LS.test _ _) as [cf|] eqn:Etest; [apply vstep_path, vp_refl|].
    assert (Hty : ty <> LS.Unlocked).
    { unfold lock_type in Et. intros ->.
      repeat match type of Et with match ?x with _ => _ end = _ => destruct x; try discriminate end. }
    set (q := LS.mkLock s0 e0 oid ty) in *.
    assert (F3 : In o (c_oofs c)) by (rewrite find_oofs_any_k in F1; eapply kfind_in; eauto).
    assert (Hfresh : forall l, In l (vo_lofs (vo o)) -> vl_other l <> c_other c + 1).
    { intros l Hl. cbn [vo vo_lofs] in Hl. apply in_map_iff in Hl. destruct Hl as [l0 [<- Hl0]]. cbn [vl vl_other].
      destruct (bounds_of o F3) as [_ B]. specialize (B l0 Hl0). lia. }
    assert (Hown : reg = None -> forall l, In l (vo_lofs (vo o)) -> vl_owner l <> oid).
    { intros ->. destruct Hreg as [_ Hn]. intros l Hl. cbn [vo vo_lofs] in Hl. apply in_map_iff in Hl.
      destruct Hl as [l0 [<- Hl0]]. cbn [vl vl_owner]. auto. }
    assert (Hr : match reg with
                 | Some x => lo_id x = v_nextlo (view st) /\ oid = v_nextlo (view st) /\ lo_files x = 0
                             /\ find_lowner_key (lo_key x) (vc_lows (vc c)) = None
                 | None => exists x, In x (vc_lows (vc c)) /\ lo_id x = oid
                 end).
    { destruct reg; [exact Hreg|exact (proj1 Hreg)]. }
    pose proof (vt_locknew Q (view st) (vc c) (vo o) (c_other c + 1) oid reg q Hvfc (vfind_oofs _ _ _ F1) F2
                  Hfresh Hown Hr eq_refl (Hq s0 e0 oid ty Eo) Hty Etest) as T.
    exists (view st). split; [apply vp_refl|]. right.
    assert (Hlf1 : forall (lf1 : lofile), lf_other lf1 = c_other c + 1 ->
              map vl (upd_lofs lf1 (of_lofs o ++ [mkLof (c_other c + 1) 0 oid (of_share o) 0]))
              = map vl (of_lofs o) ++ [vl lf1]).
    { intros lf1 E1. rewrite vl_upd_lofs, map_app. cbn [map].
      apply (kupd_snoc_fresh vl_other); [cbn; exact E1|]. intros y Hy. apply Hfresh in Hy. cbn. exact Hy. }
    destruct reg as [x|]; cbv beta iota zeta;
      destruct (sc_clone (of_readers o) (of_writers o) (of_share o)) as [[rd wr] pn]; cbv beta iota zeta; cbn [sr_st];
      (match goal with |- vlocknew _ _ (view ?s1) =>
         rewrite (view_put s1 _ (st_pool s1) (st_nextlo s1) eq_refl eq_refl eq_refl) end);
      cbn [st_pool st_nextlo set_pool add_panic with_client set_clients set_nextlo]; rewrite vc_lock_shape;
      (match goal with |- vlocknew _ _ ?b => match type of T with vlocknew _ _ ?b' => replace b with b'; [exact T|] end end);
      unfold vput; cbn [reg_list reg_n view v_cls v_pool v_nextlo vc vc_id vc_oofs vc_lows vo vo_other vo_handle vo_lofs];
      (match goal with |- context [kupd vo_other (vo ?o2) (map vo (c_oofs c))] =>
         assert (Hvo2 : vo o2 = mkVO (of_other o) (of_handle o) true
                          (map vl (of_lofs o) ++ [mkVL (c_other c + 1) oid
                             (0 + LS.set_delta (LS.set (pool_locks (of_handle o) (st_pool st)) q))]))
           by (unfold vo; cbn [o_set of_other of_handle of_live of_lofs]; rewrite F2; f_equal;
               rewrite Hlf1 by reflexivity; reflexivity);
         rewrite Hvo2 end);
      rewrite ?app_nil_r, ?N.add_0_r; reflexivity.
  Qed.

  Lemma op_lock_view : forall lt off len lk cfh sfh, req_ok Q off len ->
    vstep Q (view st) (view (sr_st (op_lock lt off len lk c st cfh sfh))).
  Proof.
    intros lt off len lk cfh sfh Hq. unfold op_lock, done. destruct lk as [osid key|lsid].
    - destruct (get_oofs c cfh osid false) as [[o|] stt] eqn:E; [|apply vstep_path, vp_refl].
      destruct (get_oofs_found _ _ _ _ _ E) as [F1 [F2 F3]]. destruct stt; [|apply vstep_path, vp_refl].
      destruct (find_lowner_key key (c_lowners c)) as [x|] eqn:Ek.
      + destruct (find (fun lf => lf_owner lf =? lo_id x) (of_lofs o)) as [lf|] eqn:El.
        * apply find_some in El. destruct El as [Hin Ho]. apply N.eqb_eq in Ho. rewrite <- Ho.
          apply vstep_path. apply lock_run_existing; auto.
          apply kfind_in_nodup; [apply Hln; exact F3|exact Hin].
        * apply lock_run_new; auto. split.
          -- exists x. split; [|reflexivity]. unfold find_lowner_key in Ek. apply find_some in Ek. tauto.
          -- intros lf Hin E1. eapply find_none in El; [|exact Hin]. cbn in El. rewrite E1, N.eqb_refl in El. discriminate.
      + apply lock_run_new; auto.
    - destruct (get_lofs c cfh lsid) as [[[o lf]|] stt] eqn:E; [|apply vstep_path, vp_refl].
      destruct (get_lofs_found _ _ _ _ _ E) as [F1 [F2 [F3 F4]]]. destruct stt; [|apply vstep_path, vp_refl].
      apply vstep_path. apply lock_run_existing; auto.
  Qed.

  (* ---- one section of an operation ------------------------------------------------------- *)
  Hypothesis Sd : side_inv st.

  Lemma op_section_view : forall o ph orc cfh sfh, op_ok Q o ->
    vstep Q (view st) (view (sr_st (op_section o ph orc c st cfh sfh))).
  Proof.
    intros o ph orc cfh sfh Hok. destruct ph.
    - (* PhNone *)
      destruct o; cbn [op_section]; unfold done;
        try (apply vstep_path, vpath_eq; repeat break_match; reflexivity).
      + (* OPEN, first half *) apply vstep_path, vpath_eq. unfold op_open_begin, done. repeat break_match; reflexivity.
      + rewrite op_open_downgrade_view. apply vstep_path, vp_refl.
      + apply vstep_path, op_close_view.
      + apply op_lock_view. exact Hok.
      + apply vstep_path, vpath_eq. unfold op_lockt, done. repeat break_match; reflexivity.
      + apply vstep_path, op_locku_view. exact Hok.
      + destruct (sid_special s); [apply vstep_path, vpath_eq; repeat break_match; reflexivity|].
        rewrite io_begin_view. apply vstep_path, vp_refl.
      + destruct (sid_special s); [apply vstep_path, vpath_eq; repeat break_match; reflexivity|].
        rewrite io_begin_view. apply vstep_path, vp_refl.
      + destruct (sid_special s); [apply vstep_path, vpath_eq; repeat break_match; reflexivity|].
        rewrite io_begin_view. apply vstep_path, vp_refl.
      + apply vstep_path, op_free_stateid_view.
      + pose proof (op_exchange_id_view Q owner verifier st I Sd) as G.
        destruct (op_exchange_id _ _ _) as [[st1 outs] r]. apply vstep_path. exact G.
      + pose proof (op_create_session_view Q clientid seq st I) as G.
        destruct (op_create_session _ _ _) as [[st1 outs] r]. apply vstep_path. exact G.
      + pose proof (op_destroy_session_view Q id st I) as G.
        destruct (op_destroy_session _ _) as [[st1 outs] r]. apply vstep_path. exact G.
      + pose proof (op_destroy_clientid_view Q id st I) as G.
        destruct (op_destroy_clientid _ _) as [[st1 outs] r]. apply vstep_path. exact G.
    - cbn [op_section]. destruct o; try (unfold done; apply vstep_path, vp_refl).
      apply vstep_path, op_open_end_view.
    - cbn [op_section sr_st]. apply vstep_path, vp_refl.
    - cbn [op_section sr_st]. apply vstep_path, vp_refl.
    - cbn [op_section]. rewrite io_end_reg_view. apply vstep_path, vp_refl.
    - cbn [op_section sr_st]. apply vstep_path, vp_refl.
  Qed.
End CisLock.

(* ---- the events of the model ------------------------------------------------------------ *)
Section Events.
  Variable Q : LS.lock -> Prop.

  (* The LOCK / LOCKU requests still to be executed by compounds in flight. *)
  Definition threads_ok (st : state) : Prop := forall t, In t (st_threads st) -> Forall (op_ok Q) (t_ops t).
  Definition event_ok (e : event) : Prop :=
    match e with ESeqBegin _ _ _ _ _ ops => Forall (op_ok Q) ops | _ => True end.

  Lemma section_view : forall tid orc st, full_inv st -> threads_ok st ->
    vstep Q (view st) (view (fst (fst (section tid orc st)))).
  Proof.
    intros tid orc st [I Sd] Hth. unfold section.
    destruct (find_thread tid (st_threads st)) as [t|] eqn:Et; cbn [fst]; [|apply vstep_path, vp_refl].
    destruct (t_ops t) as [|o rest] eqn:Eo.
    - pose proof (seq_end_view Q t st I) as G. destruct (seq_end t st). apply vstep_path. exact G.
    - destruct (find_client (t_client t) (st_clients st)) as [c|] eqn:Ec; cbn [fst]; [|apply vstep_path, vp_refl].
      pose proof (find_client_id _ _ _ Ec) as Hcid. rewrite <- Hcid in Ec.
      assert (Hok : op_ok Q o).
      { rewrite find_thread_k in Et. apply (kfind_in t_id) in Et. specialize (Hth t Et). rewrite Eo in Hth.
        inversion Hth; assumption. }
      match goal with |- vstep _ _ (view (set_threads ?s _)) => change (vstep Q (view st) (view s)) end.
      apply op_section_view; assumption.
  Qed.

  Lemma step_view : forall st e, full_inv st -> threads_ok st -> vstep Q (view st) (view (fst (step st e))).
  Proof.
    intros st e F Hth. destruct e; cbn [step].
    - apply vstep_path, vp_refl.
    - apply vstep_path. apply solo_step_view; [exact (proj1 F)|exact (proj2 F)].
    - destruct (tid_used tid st); [apply vstep_path, vp_refl|]. apply vstep_path. apply seq_begin_view. exact (proj1 F).
    - pose proof (section_view tid orc st F Hth) as G. destruct (section tid orc st) as [[st1 o1] u]. exact G.
  Qed.

  (* ... and what they leave to be executed. *)
  Lemma threads_ok_same : forall st st', st_threads st' = st_threads st -> threads_ok st -> threads_ok st'.
  Proof. intros st st' H T t Ht. rewrite H in Ht. auto. Qed.

  Lemma threads_ok_upd : forall st t t' l,
    threads_ok st -> st_threads st = l -> In t l -> Forall (op_ok Q) (t_ops t') ->
    forall t2, In t2 (upd_thread t' l) -> Forall (op_ok Q) (t_ops t2).
  Proof.
    intros st t t' l T <- Hin Hok t2 Ht2. rewrite upd_thread_k in Ht2. apply (kupd_in t_id) in Ht2.
    destruct Ht2 as [->|[Ht2 _]]; auto.
  Qed.

  Lemma seq_begin_threads_ok : forall tid sess sl sq cache ops st,
    threads_ok st -> Forall (op_ok Q) ops -> threads_ok (fst (seq_begin tid sess sl sq cache ops st)).
  Proof.
    intros tid sess sl sq cache ops st T Hops. unfold seq_begin.
    pose proof (enter_frame st) as [HT _]. destruct (enter st) as [st1 outs]. cbn [fst] in *.
    assert (T1 : threads_ok st1) by (eapply threads_ok_same; eauto).
    destruct (find_session sess (st_sessions st1)) as [ss|]; cbn [fst]; [|exact T1].
    destruct (nth_error (ss_slots ss) (N.to_nat sl)) as [s|]; cbn [fst]; [|exact T1].
    destruct (sq =? sl_seq s); cbn [fst]; [exact T1|].
    destruct (sq =? _); cbn [fst]; [|exact T1].
    destruct (sl_busy s) as [orig|].
    - destruct (find_thread orig (st_threads st1)) as [t|] eqn:Et; cbn [fst]; [|exact T1].
      intros t2 Ht2. cbn [st_threads set_threads] in Ht2.
      rewrite find_thread_k in Et. apply (kfind_in t_id) in Et.
      eapply (threads_ok_upd st1 t _ _ T1 eq_refl Et); [|exact Ht2]. cbn [t_ops]. apply T1. exact Et.
    - destruct (cf_maxops (st_cfg st1) <? _); cbn [fst]; [exact T1|].
      intros t2 Ht2. cbn [st_threads set_threads] in Ht2. apply in_app_or in Ht2.
      destruct Ht2 as [Ht2|[<-|[]]]; [|cbn [t_ops]; exact Hops].
      pose proof (hold_frame (ss_client ss)
                    (set_slot st1 ss sl (fun s0 => mkSlot (sl_seq s0) (seq_error ERR_SEQ_MISORDERED) (Some tid)))) as [HT2 _].
      rewrite HT2 in Ht2. apply T1. exact Ht2.
  Qed.

  Lemma section_threads_ok : forall tid orc st, threads_ok st -> threads_ok (fst (fst (section tid orc st))).
  Proof.
    intros tid orc st T. unfold section.
    destruct (find_thread tid (st_threads st)) as [t|] eqn:Et; cbn [fst]; [|exact T].
    rewrite find_thread_k in Et. apply (kfind_in t_id) in Et.
    destruct (t_ops t) as [|o rest] eqn:Eo.
    - unfold seq_end. pose proof (enter_frame st) as [HT _]. destruct (enter st) as [st1 outs]. cbn [fst] in *.
      pose proof (release_frame (t_client t) st1) as [HT2 _].
      intros t2 Ht2.
      assert (Hin : In t2 (del_thread (t_id t) (st_threads (release (t_client t) st1)))).
      { destruct (find_session (t_sess t) (st_sessions (release (t_client t) st1))); exact Ht2. }
      rewrite del_thread_k in Hin. apply (kdel_in t_id) in Hin. destruct Hin as [Hin _].
      rewrite HT2, HT in Hin. apply T. exact Hin.
    - destruct (find_client (t_client t) (st_clients st)) as [c|]; cbn [fst]; [|exact T].
      pose proof (op_section_frame o (t_phase t) orc c st (t_cfh t) (t_sfh t)) as [HT _].
      intros t2 Ht2. cbn [st_threads set_threads] in Ht2. rewrite HT in Ht2.
      pose proof (T t Et) as Hall. rewrite Eo in Hall.
      eapply (threads_ok_upd st t _ _ T eq_refl Et); [|exact Ht2].
      destruct (sr_step _); cbn [t_ops].
      + destruct (_ =? NFS4_OK); [inversion Hall; assumption|constructor].
      + exact Hall.
  Qed.

  Lemma step_threads_ok : forall st e, threads_ok st -> event_ok e -> threads_ok (fst (step st e)).
  Proof.
    intros st e T He. destruct e; cbn [step].
    - exact T.
    - pose proof (solo_step_frame tid s st) as [HT _]. eapply threads_ok_same; eauto.
    - destruct (tid_used tid st); [exact T|]. apply seq_begin_threads_ok; assumption.
    - pose proof (section_threads_ok tid orc st T) as G. destruct (section tid orc st) as [[st1 o1] u]. exact G.
  Qed.
End Events.
