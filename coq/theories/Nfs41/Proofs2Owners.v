(* C20, lock-owner identity: lockOwnersByOwner is a functional map from
   protocol-level lock-owners to lock-owner objects, object identities are
   never reused and belong to one client, fileCount = number of lock-owner
   files that refer to the object, every lock-owner file refers to a
   registered object, an open-owner file has at most one lock-owner file
   per lock-owner.  Invariant on views, closed under the view transitions. *)
From VF Require Export Nfs41.Proofs2Pool.
Open Scope N_scope.

(* ---- generic -------------------------------------------------------------------- *)
Lemma nodup_map_filter : forall {A B} (f : A -> B) (p : A -> bool) l, NoDup (map f l) -> NoDup (map f (filter p l)).
Proof.
  intros A B f p l. induction l as [|x l IH]; intros H; [constructor|].
  cbn in H. inversion H as [|? ? Hni Hnd]; subst. cbn. destruct (p x); [|auto]. cbn. constructor; [|auto].
  intros Hin. apply Hni. apply in_map_iff in Hin. destruct Hin as [y [Hy Hin]].
  apply filter_In in Hin. rewrite <- Hy. apply in_map. tauto.
Qed.

Lemma map_kupd_same_f : forall {A B} (key : A -> N) (f : A -> B) x' l x,
  NoDup (map key l) -> kfind key (key x') l = Some x -> f x' = f x -> map f (kupd key x' l) = map f l.
Proof.
  intros A B key f x' l x. unfold kupd, kfind. induction l as [|y l IH]; intros Hnd Hf E; [reflexivity|].
  cbn in Hnd. inversion Hnd as [|? ? Hni Hnd']; subst. cbn in *.
  destruct (key y =? key x') eqn:Ek.
  - injection Hf as ->. rewrite E. f_equal.
    clear IH Hnd Hnd'. induction l as [|z l IHl]; [reflexivity|]. cbn.
    destruct (key z =? key x') eqn:Ez.
    + exfalso. apply Hni. apply N.eqb_eq in Ez, Ek. left. congruence.
    + f_equal. apply IHl. intros Hin. apply Hni. right. exact Hin.
  - f_equal. apply IH; assumption.
Qed.

Lemma countz_kdel : forall {A} (key : A -> N) (p : A -> bool) k l x,
  NoDup (map key l) -> kfind key k l = Some x -> countz p (kdel key k l) = (countz p l - b2z (p x))%Z.
Proof. intros A key p k l x H H0. unfold countz. exact (sumz_kdel key (fun y => b2z (p y)) k l x H H0). Qed.

(* ---- lowner_dec / lowner_inc ------------------------------------------------------ *)
Definition low_pred (x : lowner) : lowner := mkLow (lo_id x) (lo_key x) (N.pred (lo_files x)).
Definition low_succ (x : lowner) : lowner := mkLow (lo_id x) (lo_key x) (lo_files x + 1).

Lemma dec_in : forall id l x', In x' (fst (lowner_dec id l)) ->
  exists x, In x l /\ lo_id x' = lo_id x /\ lo_key x' = lo_key x.
Proof.
  intros id l x' H. unfold lowner_dec in H. cbn [fst] in H. apply filter_In in H. destruct H as [H _].
  apply in_map_iff in H. destruct H as [x [E Hx]]. exists x. split; [exact Hx|].
  destruct (lo_id x =? id); subst x'; auto.
Qed.

Lemma dec_ids_nodup : forall id l, NoDup (map lo_id l) -> NoDup (map lo_id (fst (lowner_dec id l))).
Proof.
  intros id l H. unfold lowner_dec. cbn [fst]. apply nodup_map_filter.
  rewrite map_map. erewrite map_ext; [exact H|]. intros x. destruct (lo_id x =? id); reflexivity.
Qed.

Lemma dec_keys_nodup : forall id l, NoDup (map lo_key l) -> NoDup (map lo_key (fst (lowner_dec id l))).
Proof.
  intros id l H. unfold lowner_dec. cbn [fst]. apply nodup_map_filter.
  rewrite map_map. erewrite map_ext; [exact H|]. intros x. destruct (lo_id x =? id); reflexivity.
Qed.

Lemma dec_find_other : forall id id' l, id' <> id ->
  find_lowner_id id' (fst (lowner_dec id l)) = find_lowner_id id' l.
Proof.
  intros id id' l Hne. unfold lowner_dec, find_lowner_id. cbn [fst]. induction l as [|x l IH]; [reflexivity|].
  cbn [map filter find]. destruct (lo_id x =? id) eqn:E.
  - assert (E' : lo_id x =? id' = false) by (apply N.eqb_eq in E; apply N.eqb_neq; congruence).
    rewrite E'. cbn [lo_id lo_files].
    destruct (negb _); [|exact IH]. cbn [find lo_id]. rewrite E'. exact IH.
  - rewrite E. cbn [andb negb find]. destruct (lo_id x =? id'); [reflexivity|exact IH].
Qed.

Lemma dec_find_absent : forall id l, (forall x, In x l -> lo_id x <> id) ->
  find_lowner_id id (fst (lowner_dec id l)) = None.
Proof.
  intros id l H. destruct (find_lowner_id id (fst (lowner_dec id l))) as [x'|] eqn:E; [|reflexivity]. exfalso.
  unfold find_lowner_id in E. apply find_some in E. destruct E as [Hin Hid]. apply N.eqb_eq in Hid.
  destruct (dec_in _ _ _ Hin) as [x [Hx [E1 _]]]. apply (H x Hx). congruence.
Qed.

Lemma dec_cons : forall id x l,
  fst (lowner_dec id (x :: l))
  = if lo_id x =? id
    then (if N.pred (lo_files x) =? 0 then fst (lowner_dec id l) else low_pred x :: fst (lowner_dec id l))
    else x :: fst (lowner_dec id l).
Proof.
  intros id x l. unfold lowner_dec. cbn [fst map filter]. destruct (lo_id x =? id) eqn:E.
  - cbn [lo_id lo_files]. rewrite E. cbn [andb]. destruct (N.pred (lo_files x) =? 0); reflexivity.
  - rewrite E. reflexivity.
Qed.

Lemma dec_find_same : forall id l, NoDup (map lo_id l) ->
  find_lowner_id id (fst (lowner_dec id l))
  = match find_lowner_id id l with
    | Some x => if N.pred (lo_files x) =? 0 then None else Some (low_pred x)
    | None => None
    end.
Proof.
  intros id l. induction l as [|x l IH]; intros Hnd; [reflexivity|].
  cbn in Hnd. inversion Hnd as [|? ? Hni Hnd']; subst.
  rewrite dec_cons. unfold find_lowner_id at 2. cbn [find].
  destruct (lo_id x =? id) eqn:E.
  - assert (Habs : forall y, In y l -> lo_id y <> id).
    { intros y Hy Ey. apply N.eqb_eq in E. apply Hni. rewrite E, <- Ey. apply in_map. exact Hy. }
    pose proof (dec_find_absent id l Habs) as Hrest.
    destruct (N.pred (lo_files x) =? 0); [exact Hrest|].
    unfold find_lowner_id. cbn [find low_pred lo_id]. rewrite E. reflexivity.
  - unfold find_lowner_id at 1. cbn [find]. rewrite E. apply IH. exact Hnd'.
Qed.

Lemma inc_in : forall id l x', In x' (lowner_inc id l) ->
  exists x, In x l /\ lo_id x' = lo_id x /\ lo_key x' = lo_key x.
Proof.
  intros id l x' H. unfold lowner_inc in H. apply in_map_iff in H. destruct H as [x [E Hx]]. exists x.
  split; [exact Hx|]. destruct (lo_id x =? id); subst x'; auto.
Qed.

Lemma inc_ids : forall id l, map lo_id (lowner_inc id l) = map lo_id l.
Proof. intros. unfold lowner_inc. rewrite map_map. apply map_ext. intros x. destruct (lo_id x =? id); reflexivity. Qed.
Lemma inc_keys : forall id l, map lo_key (lowner_inc id l) = map lo_key l.
Proof. intros. unfold lowner_inc. rewrite map_map. apply map_ext. intros x. destruct (lo_id x =? id); reflexivity. Qed.

Lemma inc_find : forall id id' l,
  find_lowner_id id' (lowner_inc id l)
  = match find_lowner_id id' l with
    | Some x => Some (if id' =? id then low_succ x else x)
    | None => None
    end.
Proof.
  intros id id' l. unfold lowner_inc, find_lowner_id. induction l as [|x l IH]; [reflexivity|]. cbn.
  destruct (lo_id x =? id) eqn:E; cbn [lo_id].
  - destruct (lo_id x =? id') eqn:E'; [|exact IH].
    apply N.eqb_eq in E, E'. assert (E2 : id' =? id = true) by (apply N.eqb_eq; congruence). rewrite E2. reflexivity.
  - destruct (lo_id x =? id') eqn:E'; [|exact IH].
    apply N.eqb_eq in E'. assert (E2 : id' =? id = false) by (apply N.eqb_neq; apply N.eqb_neq in E; congruence).
    rewrite E2. reflexivity.
Qed.

Lemma find_lowner_id_app : forall id l1 l2,
  find_lowner_id id (l1 ++ l2) = match find_lowner_id id l1 with Some x => Some x | None => find_lowner_id id l2 end.
Proof. intros. exact (kfind_app lo_id id l1 l2). Qed.

Lemma find_lowner_id_some : forall id l x, find_lowner_id id l = Some x -> In x l /\ lo_id x = id.
Proof. intros id l x H. exact (kfind_some lo_id id l x H). Qed.

Lemma find_lowner_id_none : forall id l, find_lowner_id id l = None -> forall x, In x l -> lo_id x <> id.
Proof. intros id l H. exact (kfind_none lo_id id l H). Qed.

Lemma find_lowner_id_in : forall l x, NoDup (map lo_id l) -> In x l -> find_lowner_id (lo_id x) l = Some x.
Proof. intros l x H Hin. exact (kfind_in_nodup lo_id l x H Hin). Qed.

(* ---- the invariant -------------------------------------------------------------------- *)
Definition owned (id : N) (l : vlof) : bool := vl_owner l =? id.
Definition files_of (id : N) (c : vcl) : Z := sumz (fun o => countz (owned id) (vo_lofs o)) (vc_oofs c).

Definition low_client_ok (c : vcl) : Prop :=
  NoDup (map lo_id (vc_lows c))
  /\ NoDup (map lo_key (vc_lows c))
  /\ (forall id, match find_lowner_id id (vc_lows c) with
                 | Some x => Z.of_N (lo_files x) = files_of id c /\ (0 < files_of id c)%Z
                 | None => files_of id c = 0%Z
                 end)
  /\ (forall o, In o (vc_oofs c) -> NoDup (map vl_owner (vo_lofs o))).

Definition low_ok (v : vstate) : Prop :=
  0 < v_nextlo v
  /\ (forall c x, In c (v_cls v) -> In x (vc_lows c) -> 0 < lo_id x /\ lo_id x < v_nextlo v)
  /\ (forall c1 c2 x1 x2, In c1 (v_cls v) -> In c2 (v_cls v) -> In x1 (vc_lows c1) -> In x2 (vc_lows c2) ->
        lo_id x1 = lo_id x2 -> vc_id c1 = vc_id c2)
  /\ (forall c, In c (v_cls v) -> low_client_ok c).

(* Consequences. *)
Lemma files_of_nonneg : forall id c, (0 <= files_of id c)%Z.
Proof. intros. apply sumz_nonneg. intros o _. apply countz_nonneg. Qed.

Lemma lof_registered : forall c o l, low_client_ok c -> In o (vc_oofs c) -> In l (vo_lofs o) ->
  exists x, find_lowner_id (vl_owner l) (vc_lows c) = Some x /\ In x (vc_lows c) /\ lo_id x = vl_owner l.
Proof.
  intros c o l [_ [_ [F _]]] Ho Hl. specialize (F (vl_owner l)).
  assert (Hpos : (1 <= files_of (vl_owner l) c)%Z).
  { unfold files_of.
    assert (H1 : (countz (owned (vl_owner l)) (vo_lofs o)
                  <= sumz (fun o0 => countz (owned (vl_owner l)) (vo_lofs o0)) (vc_oofs c))%Z).
    { apply (sumz_in_le (fun o0 => countz (owned (vl_owner l)) (vo_lofs o0))); [intros y _; apply countz_nonneg|exact Ho]. }
    assert (H2 : (1 <= countz (owned (vl_owner l)) (vo_lofs o))%Z).
    { eapply countz_pos_in; [exact Hl|]. unfold owned. apply N.eqb_refl. }
    lia. }
  destruct (find_lowner_id (vl_owner l) (vc_lows c)) as [x|] eqn:E; [|lia].
  exists x. split; [reflexivity|]. apply find_lowner_id_some. exact E.
Qed.

(* ---- files_of under the updates ---------------------------------------------------------- *)
Lemma files_of_put : forall id c o o' lows,
  NoDup (map vo_other (vc_oofs c)) -> kfind vo_other (vo_other o') (vc_oofs c) = Some o ->
  files_of id (mkVC (vc_id c) (kupd vo_other o' (vc_oofs c)) lows)
  = (files_of id c - countz (owned id) (vo_lofs o) + countz (owned id) (vo_lofs o'))%Z.
Proof.
  intros id c o o' lows Hnd Hf. unfold files_of. cbn [vc_oofs].
  apply (sumz_kupd vo_other (fun o0 => countz (owned id) (vo_lofs o0))); assumption.
Qed.

(* ---- closure ------------------------------------------------------------------------------- *)
(* Replacing the record of client [c]: the lock-owner objects of the new
   record are objects of the old one, or the next fresh one. *)
Lemma low_ok_put : forall v c c' pool nextlo',
  low_ok v -> vwf v -> kfind vc_id (vc_id c) (v_cls v) = Some c -> vc_id c' = vc_id c ->
  v_nextlo v <= nextlo' ->
  (forall x', In x' (vc_lows c') ->
     (exists x, In x (vc_lows c) /\ lo_id x = lo_id x') \/ (lo_id x' = v_nextlo v /\ v_nextlo v < nextlo')) ->
  low_client_ok c' ->
  low_ok (vput v c' pool nextlo').
Proof.
  intros v c c' pool nextlo' [L0 [LA [LG LL]]] W Hf Hid Hn Hids Hc'.
  assert (Hcin : In c (v_cls v)) by (eapply kfind_in; eauto).
  assert (Hin' : forall c2, In c2 (v_cls (vput v c' pool nextlo')) -> c2 = c' \/ (In c2 (v_cls v) /\ vc_id c2 <> vc_id c)).
  { intros c2 H2. cbn [vput v_cls] in H2. apply (kupd_in vc_id) in H2. rewrite Hid in H2. exact H2. }
  split; [cbn; lia|]. split; [|split].
  - intros c2 x H2 Hx. cbn [vput v_nextlo]. destruct (Hin' c2 H2) as [->|[H2' _]].
    + destruct (Hids x Hx) as [[x0 [Hx0 E]]|[E1 E2]].
      * destruct (LA c x0 Hcin Hx0) as [A1 A2]. rewrite <- E. lia.
      * lia.
    + destruct (LA c2 x H2' Hx) as [A1 A2]. lia.
  - intros c1 c2 x1 x2 H1 H2 Hx1 Hx2 E.
    destruct (Hin' c1 H1) as [->|[H1' Ne1]]; destruct (Hin' c2 H2) as [->|[H2' Ne2]]; [reflexivity| | |].
    + exfalso. destruct (Hids x1 Hx1) as [[x0 [Hx0 E0]]|[E1 _]].
      * apply Ne2. symmetry. apply (LG c c2 x0 x2 Hcin H2' Hx0 Hx2). congruence.
      * destruct (LA c2 x2 H2' Hx2) as [_ A2]. lia.
    + exfalso. destruct (Hids x2 Hx2) as [[x0 [Hx0 E0]]|[E1 _]].
      * apply Ne1. apply (LG c1 c x1 x0 H1' Hcin Hx1 Hx0). congruence.
      * destruct (LA c1 x1 H1' Hx1) as [_ A2]. lia.
    + apply (LG c1 c2 x1 x2); assumption.
  - intros c2 H2. destruct (Hin' c2 H2) as [->|[H2' _]]; [exact Hc'|apply LL; exact H2'].
Qed.

Lemma low_ok_client : forall v c, low_ok v -> kfind vc_id (vc_id c) (v_cls v) = Some c -> low_client_ok c.
Proof. intros v c [_ [_ [_ LL]]] Hf. apply LL. eapply kfind_in; eauto. Qed.

Lemma lows_same_ids : forall (c : vcl) x', In x' (vc_lows c) ->
  (exists x, In x (vc_lows c) /\ lo_id x = lo_id x') \/ (lo_id x' = 0 /\ 0 < 0).
Proof. intros c x' H. left. exists x'. auto. Qed.

Lemma vtr_low_ok : forall Q a b, vwf a -> low_ok a -> vtr Q a b -> low_ok b.
Proof.
  intros Q a b W L T. destruct T.
  - (* add *) destruct L as [L0 [LA [LG LL]]].
    assert (Hin' : forall c2, In c2 (v_cls v ++ [mkVC id [] []]) -> In c2 (v_cls v) \/ c2 = mkVC id [] []).
    { intros c2 H2. apply in_app_or in H2. destruct H2 as [H2|[<-|[]]]; auto. }
    split; [exact L0|]. split; [|split]; cbn [v_cls v_nextlo].
    + intros c2 x H2 Hx. destruct (Hin' c2 H2) as [H2' | ->]; [eapply LA; eauto|destruct Hx].
    + intros c1 c2 x1 x2 H1 H2 Hx1 Hx2 E.
      destruct (Hin' c1 H1) as [H1' | ->]; [|destruct Hx1]. destruct (Hin' c2 H2) as [H2' | ->]; [|destruct Hx2].
      eapply LG; eauto.
    + intros c2 H2. destruct (Hin' c2 H2) as [H2' | ->]; [apply LL; exact H2'|].
      split; [constructor|]. split; [constructor|]. split; [intros id0; reflexivity|intros o []].
  - (* del *) destruct L as [L0 [LA [LG LL]]].
    assert (Hin' : forall c2, In c2 (kdel vc_id (vc_id c) (v_cls v)) -> In c2 (v_cls v)).
    { intros c2 H2. apply (kdel_in vc_id) in H2. tauto. }
    split; [exact L0|]. split; [|split]; cbn [v_cls v_nextlo].
    + intros c2 x H2 Hx. eapply LA; eauto.
    + intros c1 c2 x1 x2 H1 H2. apply LG; auto.
    + intros c2 H2. apply LL. auto.
  - (* open *) pose proof (low_ok_client _ _ L H) as [C1 [C2 [C3 C4]]].
    eapply (low_ok_put v c); [exact L|exact W|exact H|reflexivity|cbn; lia|cbn [vc_lows]; intros x' Hx; left; eauto|].
    split; [exact C1|]. split; [exact C2|]. split.
    + intros id0. specialize (C3 id0). cbn [vc_lows].
      assert (E : files_of id0 (mkVC (vc_id c) (vc_oofs c ++ [mkVO other h true []]) (vc_lows c)) = files_of id0 c).
      { unfold files_of. cbn [vc_oofs]. rewrite sumz_app. cbn. unfold countz. cbn. lia. }
      rewrite E. exact C3.
    + intros o Ho. cbn [vc_oofs] in Ho. apply in_app_or in Ho. destruct Ho as [Ho|[<-|[]]]; [apply C4; exact Ho|constructor].
  - (* rmlof *) pose proof (low_ok_client _ _ L H) as [C1 [C2 [C3 C4]]].
    destruct (vwf_client _ _ W H) as [N1 N2]. destruct (N2 o (kfind_in _ _ _ _ H0)) as [N3 _].
    eapply (low_ok_put v c); [exact L|exact W|exact H|reflexivity|cbn; lia| |]; cbn [vc_id vc_lows vc_oofs].
    + intros x' Hx. left. destruct (dec_in _ _ _ Hx) as [x [Hx0 [E _]]]. exists x. auto.
    + split; [apply dec_ids_nodup; exact C1|]. split; [apply dec_keys_nodup; exact C2|]. split.
      * intros id0. cbn [vc_lows].
        rewrite (files_of_put id0 c o _ _ N1) by (cbn; exact H0). cbn [vo_lofs].
        rewrite (countz_kdel vl_other (owned id0) _ _ lf N3 H2).
        pose proof (C3 id0) as C3i.
        destruct (N.eq_dec id0 (vl_owner lf)) as [->|Hne].
        -- rewrite dec_find_same by exact C1.
           assert (Hown : owned (vl_owner lf) lf = true) by (unfold owned; apply N.eqb_refl). rewrite Hown. cbn [b2z].
           destruct (find_lowner_id (vl_owner lf) (vc_lows c)) as [x|] eqn:E.
           ++ destruct C3i as [E1 E2]. destruct (N.pred (lo_files x) =? 0) eqn:E0.
              ** apply N.eqb_eq in E0. lia.
              ** apply N.eqb_neq in E0. cbn [low_pred lo_files]. split; lia.
           ++ (* impossible: the lock-owner file refers to a registered object *)
              exfalso. assert (Hp : (1 <= files_of (vl_owner lf) c)%Z); [|lia].
              unfold files_of.
              assert (H5 : (countz (owned (vl_owner lf)) (vo_lofs o)
                            <= sumz (fun o0 => countz (owned (vl_owner lf)) (vo_lofs o0)) (vc_oofs c))%Z).
              { apply (sumz_in_le (fun o0 => countz (owned (vl_owner lf)) (vo_lofs o0)));
                  [intros y _; apply countz_nonneg|eapply kfind_in; eauto]. }
              assert (H6 : (1 <= countz (owned (vl_owner lf)) (vo_lofs o))%Z).
              { eapply countz_pos_in; [eapply kfind_in; eauto|]. unfold owned. apply N.eqb_refl. }
              lia.
        -- rewrite dec_find_other by exact Hne.
           assert (E : owned id0 lf = false) by (unfold owned; apply N.eqb_neq; congruence). rewrite E. cbn [b2z].
           destruct (find_lowner_id id0 (vc_lows c)); [destruct C3i; split; lia|lia].
      * intros o0 Ho0. cbn [vc_oofs] in Ho0. apply (kupd_in vo_other) in Ho0. destruct Ho0 as [->|[Ho0 _]]; [|apply C4; exact Ho0].
        cbn [vo_lofs]. unfold kdel. apply nodup_map_filter. apply C4. eapply kfind_in; eauto.
  - (* close *) pose proof (low_ok_client _ _ L H) as [C1 [C2 [C3 C4]]].
    destruct (vwf_client _ _ W H) as [N1 N2].
    eapply (low_ok_put v c); [exact L|exact W|exact H|reflexivity|cbn; lia|cbn [cput vc_lows]; intros x' Hx; left; eauto|];
      unfold cput; cbn [vc_id vc_lows vc_oofs].
    split; [exact C1|]. split; [exact C2|]. split.
    + intros id0. cbn [vc_lows]. rewrite (files_of_put id0 c o _ _ N1) by (cbn; exact H0). cbn [vo_lofs].
      rewrite H2. unfold countz. cbn [sumz]. specialize (C3 id0).
      destruct (find_lowner_id id0 (vc_lows c)); [destruct C3; split; lia|lia].
    + intros o0 Ho0. apply (kupd_in vo_other) in Ho0. destruct Ho0 as [->|[Ho0 _]]; [constructor|apply C4; exact Ho0].
  - (* set *) pose proof (low_ok_client _ _ L H) as [C1 [C2 [C3 C4]]].
    destruct (vwf_client _ _ W H) as [N1 N2]. destruct (N2 o (kfind_in _ _ _ _ H0)) as [N3 _].
    eapply (low_ok_put v c); [exact L|exact W|exact H|reflexivity|cbn; lia|cbn [cput vc_lows]; intros x' Hx; left; eauto|];
      unfold cput; cbn [vc_id vc_lows vc_oofs].
    split; [exact C1|]. split; [exact C2|]. split.
    + intros id0. cbn [vc_lows]. rewrite (files_of_put id0 c o _ _ N1) by (cbn; exact H0). unfold oput. cbn [vo_lofs].
      rewrite (countz_kupd vl_other (owned id0) _ _ lf N3) by (cbn; exact H2).
      match goal with |- context [b2z (owned id0 (mkVL ?a ?b ?cc))] =>
        change (owned id0 (mkVL a b cc)) with (owned id0 lf) end.
      specialize (C3 id0).
      destruct (find_lowner_id id0 (vc_lows c)); [destruct C3; split; lia|lia].
    + intros o0 Ho0. apply (kupd_in vo_other) in Ho0. destruct Ho0 as [->|[Ho0 _]]; [|apply C4; exact Ho0].
      unfold oput. cbn [vo_lofs].
      rewrite (map_kupd_same_f vl_other vl_owner _ _ lf N3) by (cbn; auto). apply C4. eapply kfind_in; eauto.
Qed.

Lemma vlocknew_low_ok : forall Q a b, vwf a -> low_ok a -> vlocknew Q a b -> low_ok b.
Proof.
  intros Q a b W L T. destruct T.
  pose proof (low_ok_client _ _ L H) as [C1 [C2 [C3 C4]]].
  destruct (vwf_client _ _ W H) as [N1 N2]. destruct (N2 o (kfind_in _ _ _ _ H0)) as [N3 _].
  assert (Hcin : In c (v_cls v)) by (eapply kfind_in; eauto).
  assert (Hoin : In o (vc_oofs c)) by (eapply kfind_in; eauto).
  destruct L as [L0 [LA [LG LL]]].
  (* the lock-owner files of [o] refer to registered objects, which are older than the next one *)
  assert (Hold : forall l, In l (vo_lofs o) -> vl_owner l < v_nextlo v).
  { intros l Hl. destruct (lof_registered c o l (LL c Hcin) Hoin Hl) as [x [_ [Hx E]]].
    destruct (LA c x Hcin Hx) as [_ A2]. lia. }
  assert (Hnew : forall l, In l (vo_lofs o) -> vl_owner l <> oid).
  { intros l Hl. destruct reg as [x|].
    - destruct H4 as [_ [E _]]. specialize (Hold l Hl). lia.
    - apply H3; auto. }
  eapply (low_ok_put v c); eauto; cbn [vc_id vc_lows vc_oofs].
  - split; [exact L0|]. split; [exact LA|]. split; [exact LG|exact LL].
  - destruct reg; cbn [reg_n]; lia.
  - intros x' Hx. destruct (inc_in _ _ _ Hx) as [x0 [Hx0 [E _]]]. apply in_app_or in Hx0.
    destruct Hx0 as [Hx0|Hx0]; [left; exists x0; auto|].
    destruct reg as [x|]; [|destruct Hx0]. destruct Hx0 as [<-|[]]. right. destruct H4 as [E1 _]. cbn [reg_n]. split; [congruence|lia].
  - split; [|split; [|split]]; cbn [vc_lows vc_oofs].
    + rewrite inc_ids, map_app. destruct reg as [x|]; cbn [reg_list map]; [|rewrite app_nil_r; exact C1].
      apply NoDup_snoc; [exact C1|]. intros Hin. apply in_map_iff in Hin. destruct Hin as [x0 [E Hx0]].
      destruct (LA c x0 Hcin Hx0) as [_ A2]. destruct H4 as [E1 _]. lia.
    + rewrite inc_keys, map_app. destruct reg as [x|]; cbn [reg_list map]; [|rewrite app_nil_r; exact C2].
      apply NoDup_snoc; [exact C2|]. intros Hin. apply in_map_iff in Hin. destruct Hin as [x0 [E Hx0]].
      destruct H4 as [_ [_ [_ Hk]]]. unfold find_lowner_key in Hk. eapply find_none in Hk; [|exact Hx0]. cbn in Hk.
      rewrite E, N.eqb_refl in Hk. discriminate.
    + intros id0. cbn [vc_lows]. rewrite (files_of_put id0 c o _ _ N1) by (cbn; exact H0). cbn [vo_lofs].
      rewrite countz_app.
      match goal with |- context [countz (owned id0) [?nl]] =>
        assert (Hc1 : countz (owned id0) [nl] = b2z (oid =? id0)) by (unfold countz, owned; cbn [sumz vl_owner]; lia);
        rewrite Hc1 end.
      rewrite inc_find, find_lowner_id_app. pose proof (C3 id0) as C3i.
      destruct (N.eq_dec id0 oid) as [->|Hne].
      * rewrite N.eqb_refl. cbn [b2z].
        destruct reg as [x|]; cbn [reg_list].
        -- destruct H4 as [E1 [E2 [E3 _]]].
           assert (Hnone : find_lowner_id oid (vc_lows c) = None).
           { destruct (find_lowner_id oid (vc_lows c)) as [x0|] eqn:E; [|reflexivity]. exfalso.
             apply find_lowner_id_some in E. destruct E as [Hx0 E]. destruct (LA c x0 Hcin Hx0) as [_ A2]. lia. }
           rewrite Hnone in C3i |- *. unfold find_lowner_id. cbn [find]. rewrite E1, <- E2, N.eqb_refl.
           cbn [low_succ lo_files]. rewrite E3. split; lia.
        -- destruct H4 as [x [Hx E]]. rewrite <- E in *.
           rewrite (find_lowner_id_in _ x C1 Hx) in C3i |- *. destruct C3i as [F1 F2].
           cbn [low_succ lo_files]. split; lia.
      * assert (E : oid =? id0 = false) by (apply N.eqb_neq; congruence). rewrite E. cbn [b2z].
        assert (E' : id0 =? oid = false) by (apply N.eqb_neq; exact Hne). rewrite E'.
        destruct (find_lowner_id id0 (vc_lows c)) as [x0|] eqn:Ef.
        -- destruct C3i. split; lia.
        -- destruct reg as [x|]; cbn [reg_list].
           ++ destruct H4 as [E1 [E2 _]]. unfold find_lowner_id. cbn [find].
              assert (E3 : lo_id x =? id0 = false) by (apply N.eqb_neq; congruence). rewrite E3. lia.
           ++ cbn. lia.
    + intros o0 Ho0. apply (kupd_in vo_other) in Ho0. destruct Ho0 as [->|[Ho0 _]]; [|apply C4; exact Ho0].
      cbn [vo_lofs]. rewrite map_app. cbn [map vl_owner]. apply NoDup_snoc; [apply C4; exact Hoin|].
      intros Hin. apply in_map_iff in Hin. destruct Hin as [l [E Hl]]. exact (Hnew l Hl E).
Qed.

Lemma vstep_low_ok : forall Q a b, vwf a -> low_ok a -> vstep Q a b -> low_ok b.
Proof.
  intros Q a b W L [m [Hp Hl]].
  assert (Hm : low_ok m /\ vwf m).
  { clear Hl. induction Hp; [auto|]. apply IHHp; [eapply vtr_vwf; eauto|eapply vtr_low_ok; eauto]. }
  destruct Hm as [Lm Wm]. destruct Hl as [<-|Hl]; [auto|]. eapply vlocknew_low_ok; eauto.
Qed.
