(* C20 through NFSv4.1: the property theorems, and nothing else. *)
From VF Require Import Nfs41.Model Nfs41.Dump Nfs41.Spec Nfs41.Proofs.
Open Scope N_scope.
