(* C20 through NFSv4.1 (lock-owner identity, LOCKT vs LOCK, lockCount
   gates): the property theorems, and nothing else.  The lock table
   itself (Set / Test) is VF.LockSet; its theorems are in
   LockSet/Properties.v. *)
From VF Require Import Nfs41.Proofs.
Open Scope N_scope.

(* LOCKT consults the file's table with the same owner identity as LOCK:
   it reports a conflict exactly when LOCK by that lock-owner would be
   denied, and names the same conflicting lock. *)
Theorem lockt_iff_lock41 : forall lt off len key c st cfh sfh o x,
  find_lowner_key key (c_lowners c) = Some x ->
  leaf_status cfh = NFS4_OK -> fh_handle cfh = of_handle o ->
  forall cf,
    (sr_step (op_lockt lt off len key c st cfh sfh) = Done (denied_of OP_LOCKT (st_clients st) cf)
     /\ exists s e ty, LS.offset_length_to_start_end off len = Some (s, e) /\ lock_type lt = Some ty
                       /\ LS.test (pool_locks (of_handle o) (st_pool st)) (LS.mkLock s e (lo_id x) ty) = Some cf)
    <->
    (sr_step (op_lock_run lt off len c st cfh sfh o (find (fun lf => lf_owner lf =? lo_id x) (of_lofs o)) (lo_id x) None)
       = Done (denied_of OP_LOCK (st_clients st) cf)
     /\ exists s e ty, LS.offset_length_to_start_end off len = Some (s, e) /\ lock_type lt = Some ty
                       /\ LS.test (pool_locks (of_handle o) (st_pool st)) (LS.mkLock s e (lo_id x) ty) = Some cf).
Proof. exact lockt_iff_lock. Qed.
Print Assumptions lockt_iff_lock41.

(* The conflict reported to a lock-owner is never one of the locks held
   by its own lock-owner object: an owner's own locks never block it. *)
Theorem own_locks_never_conflict41 : forall locks q cf,
  LS.test locks q = Some cf -> LS.lowner cf <> LS.lowner q.
Proof. exact denied_lock_has_other_owner. Qed.
Print Assumptions own_locks_never_conflict41.

(* lockCount gate: FREE_STATEID on a lock state ID with locks held answers
   NFS4ERR_LOCKS_HELD and changes nothing (it does not panic). *)
Theorem free_stateid_locks_held_gate : forall s c st cfh sfh o lf,
  s_hi s = 0 -> find_lofs (s_lo s) (c_oofs c) = Some (o, lf) ->
  compare_seq (s_seq s) (lf_seq lf) = NFS4_OK -> (0 < lf_count lf)%Z ->
  op_free_stateid s c st cfh sfh = done st cfh sfh (RStatus OP_FREE_STATEID ERR_LOCKS_HELD).
Proof. exact free_stateid_locks_held. Qed.
Print Assumptions free_stateid_locks_held_gate.

(* The monitor applies LockSet's table predicates to dumped tables after
   encoding (client, lock-owner, identity tag) as one number; the encoding
   is injective (tags are >= -1), so it never confuses two lock-owners. *)
Theorem owner_code_injective : forall c1 k1 t1 c2 k2 t2,
  (-1 <= t1)%Z -> (-1 <= t2)%Z ->
  owner_code c1 k1 t1 = owner_code c2 k2 t2 -> c1 = c2 /\ k1 = k2 /\ t1 = t2.
Proof. exact owner_code_inj. Qed.
Print Assumptions owner_code_injective.

(* Non-vacuity: a lock-owner that holds [0,10) exclusively tests and
   re-locks its own range (granted), another owner is denied by it; after
   CLOSE the table is empty. *)
Definition lock_events : list event :=
  [ ESolo 1 (SExchangeId 0 10); ESolo 2 (SCreateSession 1 3);
    ESeqBegin 3 3 0 1 true [OPutRootFH; OOpen 0 3 0 HowUnchecked (ClaimNull 1);
                            OLock 2 0 10 (LockerNew sid_current 1)];
    ESection 3 FsOk; ESection 3 (FsLeaf 1); ESection 3 FsOk; ESection 3 FsOk; ESection 3 FsOk;
    ESeqBegin 4 3 0 2 true [OPutFH 1; OLockT 2 0 10 1; OLockT 2 0 10 2;
                            OLock 2 5 10 (LockerNew (mkSid 0 1 0) 1)];
    ESection 4 FsOk; ESection 4 FsOk; ESection 4 FsOk; ESection 4 FsOk; ESection 4 FsOk ].

Example holder_is_not_denied_other_owner_is :
  let r := run (init cfg0 1000) lock_events in
  last (snd r) (OLeafClose 0 m0)
  = OReply 4 (mkReply ERR_DENIED [RSequenceOk 3 2 0 1; RStatus OP_PUTFH NFS4_OK;
                                  RStatus OP_LOCKT NFS4_OK;             (* the holder's own test *)
                                  RDenied OP_LOCKT 0 10 2 1 1])         (* another owner: denied by client 1, owner 1 *)
  /\ map (fun c => map lo_key (c_lowners c)) (st_clients (fst r)) = [[1]]
  /\ st_panic (fst r) = false.
Proof. vm_compute. repeat split; reflexivity. Qed.
