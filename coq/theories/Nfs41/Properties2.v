(* C18 (NFSv4.1), second round: the opened-files pool.  The property
   theorems, and nothing else; proofs in Proofs2*.v.  All statements are
   over every list of events from the initial state (any number of
   clients and compounds, any interleaving at critical-section
   granularity, any file system results, any clock advances). *)
From VF Require Import Nfs41.Proofs2PoolThm Nfs41.Proofs2Lease.
Open Scope N_scope.

(* useCount of a pool entry = number of live open-owner files, of all
   clients, that refer to the file handle; the entry exists iff that
   number is positive.  ([live_opens st h]: see Proofs2PoolThm.v; the only
   users of OpenedFilesPool.Open / OpenedFile.Close in nfs41_program.go
   are the creation and the removal of an open-owner file.) *)
Theorem pool_usecount_exact : forall cfg c0 evs h,
  let st := reachable cfg c0 evs in
  match find_pfile h (st_pool st) with
  | Some p => Z.of_N (pf_use p) = live_opens st h /\ (0 < live_opens st h)%Z
  | None => live_opens st h = 0%Z
  end.
Proof. exact pool_usecount_is_exact. Qed.
Print Assumptions pool_usecount_exact.

Theorem pool_one_entry_per_handle : forall cfg c0 evs,
  NoDup (map pf_handle (st_pool (reachable cfg c0 evs))).
Proof. exact pool_handles_unique. Qed.
Print Assumptions pool_one_entry_per_handle.

(* open_stays_resolvable: while any open-owner file refers to a file
   handle the pool keeps an entry for it ... *)
Theorem open_stays_resolvable : forall cfg c0 evs c o,
  let st := reachable cfg c0 evs in
  In c (st_clients st) -> In o (c_oofs c) -> of_live o = true ->
  exists p, find_pfile (of_handle o) (st_pool st) = Some p /\ 0 < pf_use p.
Proof. exact open_has_pool_entry. Qed.
Print Assumptions open_stays_resolvable.

(* ... hence PUTFH of that handle succeeds for every client, whatever the
   file system's handle resolver would say (the oracle [orc] is not even
   consulted): an open file stays reachable after it was unlinked. *)
Theorem open_file_putfh_succeeds : forall cfg c0 evs c o c' orc cfh sfh,
  let st := reachable cfg c0 evs in
  In c (st_clients st) -> In o (c_oofs c) -> of_live o = true ->
  op_section (OPutFH (of_handle o)) PhNone orc c' st cfh sfh
  = done st (mkFh (NLeaf (of_handle o)) 0 0) sfh (RStatus OP_PUTFH NFS4_OK).
Proof. exact open_putfh_resolves. Qed.
Print Assumptions open_file_putfh_succeeds.

(* No entry outlives the open-owner files that refer to it. *)
Theorem pool_entry_is_referenced : forall cfg c0 evs p,
  let st := reachable cfg c0 evs in
  In p (st_pool st) ->
  exists c o, In c (st_clients st) /\ In o (c_oofs c) /\ of_live o = true /\ of_handle o = pf_handle p.
Proof. exact pool_entry_has_open. Qed.
Print Assumptions pool_entry_is_referenced.

(* expiry_leaves_nothing (completes expiry_leaves_nothing_partial of
   Properties.v): when no request is in flight and every lease has lapsed,
   one enter() leaves no client, no session, no request, an empty
   opened-files pool (hence no lock table), an empty idle list, and every
   leaf closed. *)
Theorem expiry_leaves_nothing : forall cfg c0 evs,
  let st := fst (run (init cfg c0) evs) in
  st_threads st = [] ->
  (forall c, In c (st_clients st) -> c_seen c + cf_lease (st_cfg st) < N.max (st_now st) (st_clock st)) ->
  st_clients (fst (enter st)) = [] /\ st_sessions (fst (enter st)) = [] /\ st_threads (fst (enter st)) = []
  /\ st_pool (fst (enter st)) = [] /\ st_idle (fst (enter st)) = []
  /\ forall h b, balance h b (snd (run (init cfg c0) evs) ++ snd (enter st)) = 0%Z.
Proof. exact enter_after_all_leases_lapsed_full. Qed.
Print Assumptions expiry_leaves_nothing.

(* Leases.  enter() walks the idle list from its head and stops at the
   first incarnation whose lease has not lapsed; this is correct because the
   idle list is ordered by lastSeen ([lease_inv]: sorted, nobody seen in the
   future, nobody idle with a lapsed lease).  Consequently, after every
   event: an incarnation without requests in flight has now <= lastSeen +
   lease -- no client whose lease has lapsed survives the enter() that every
   request starts with. *)
Theorem idle_list_ordered_by_last_seen : forall cfg c0 evs, lease_inv (fst (run (init cfg c0) evs)).
Proof. exact reachable_lease_inv. Qed.
Print Assumptions idle_list_ordered_by_last_seen.

Theorem no_lapsed_idle_client : forall cfg c0 evs c,
  let st := reachable cfg c0 evs in
  In c (st_clients st) -> c_hold c = 0 -> st_now st <= c_seen c + cf_lease (st_cfg st).
Proof. exact no_lapsed_idle. Qed.
Print Assumptions no_lapsed_idle_client.

(* ==== non-vacuity ============================================================ *)
(* A client opens file 1, the file is removed, a second compound of the
   same session still resolves the handle (the oracle says NFS4ERR_STALE:
   it is not consulted) and closes; in between the pool entry has
   useCount 1, afterwards the pool is empty. *)
Definition cfg2 := mkConfig 2000 2 6.
Definition unlink_events : list event :=
  [ ESolo 1 (SExchangeId 0 10); ESolo 2 (SCreateSession 1 3);
    ESeqBegin 3 3 0 1 true [OPutRootFH; OOpen 0 3 0 HowUnchecked (ClaimNull 1); OPutRootFH; ORemove 1];
    ESection 3 FsOk; ESection 3 (FsLeaf 1); ESection 3 FsOk; ESection 3 FsOk; ESection 3 FsOk; ESection 3 FsOk ].
Definition unlink_events_end : list event :=
  unlink_events ++
  [ ESeqBegin 4 3 0 2 true [OPutFH 1; OClose (mkSid 0 1 0)];
    ESection 4 (FsErr 70); ESection 4 FsOk; ESection 4 FsOk ].

Example open_unlinked_file_in_pool :
  let st := reachable cfg2 1000 unlink_events in
  map (fun p => (pf_handle p, pf_use p)) (st_pool st) = [(1, 1)] /\ live_opens st 1 = 1%Z
  /\ st_threads st = [] /\ st_panic st = false.
Proof. vm_compute. repeat split; reflexivity. Qed.

Example unlinked_file_closed_through_putfh :
  let r := run (init cfg2 1000) unlink_events_end in
  last (snd r) (OLeafClose 0 m0)
  = OReply 4 (mkReply NFS4_OK [RSequenceOk 3 2 0 1; RStatus OP_PUTFH NFS4_OK; RStatus OP_CLOSE NFS4_OK])
  /\ st_pool (fst r) = [] /\ live_opens (fst r) 1 = 0%Z /\ st_panic (fst r) = false.
Proof. vm_compute. repeat split; reflexivity. Qed.
