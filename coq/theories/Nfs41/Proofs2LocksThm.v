(* C20 through NFSv4.1: lock-owner identity and lockCount over all
   histories. *)
From Coq Require Import Lia ZifyBool ZifyN.
From VF Require Import LockSet.ProofsHist.
From VF Require Export Nfs41.Proofs2Locks Nfs41.Proofs2PoolThm.
Open Scope N_scope.

(* ---- lock owners: no hypothesis ---------------------------------------------------------- *)
Lemma init_low_ok : forall cfg c0, low_ok (view (init cfg c0)).
Proof.
  intros. split; [reflexivity|]. split; [intros c x []|]. split; [intros c1 c2 x1 x2 []|intros c []].
Qed.

Theorem reachable_low_ok : forall cfg c0 evs, low_ok (view (reachable cfg c0 evs)).
Proof.
  intros. unfold reachable. apply (run_view_inv low_ok).
  - intros a b W L V. exact (vstep_low_ok QT a b W L V).
  - apply init_full.
  - apply init_low_ok.
Qed.

(* Number of lock-owner files of client [c] that refer to lock-owner object [id]. *)
Definition lock_files (c : client) (id : N) : Z :=
  sumz (fun o => countz (fun lf => lf_owner lf =? id) (of_lofs o)) (c_oofs c).

Lemma files_of_lock_files : forall c id, files_of id (vc c) = lock_files c id.
Proof.
  intros. unfold files_of, lock_files. cbn [vc vc_oofs]. rewrite sumz_map. apply sumz_ext. intros o _.
  cbn [vo vo_lofs]. rewrite countz_map. reflexivity.
Qed.

Lemma one_owner_one_object_lemma : forall cfg c0 evs,
  let st := reachable cfg c0 evs in
  (* object identities: positive, below the counter, owned by one client *)
  (forall c x, In c (st_clients st) -> In x (c_lowners c) -> 0 < lo_id x /\ lo_id x < st_nextlo st)
  /\ (forall c1 c2 x1 x2, In c1 (st_clients st) -> In c2 (st_clients st) ->
        In x1 (c_lowners c1) -> In x2 (c_lowners c2) -> lo_id x1 = lo_id x2 -> c1 = c2 /\ x1 = x2)
  /\ forall c, In c (st_clients st) ->
       (* lockOwnersByOwner is a functional map both ways *)
       NoDup (map lo_key (c_lowners c)) /\ NoDup (map lo_id (c_lowners c))
       (* every lock-owner file refers to the registered object of its lock-owner *)
       /\ (forall o lf, In o (c_oofs c) -> In lf (of_lofs o) ->
             exists x, find_lowner_id (lf_owner lf) (c_lowners c) = Some x /\ In x (c_lowners c))
       (* fileCount *)
       /\ (forall x, In x (c_lowners c) ->
             Z.of_N (lo_files x) = lock_files c (lo_id x) /\ 0 < lo_files x)
       (* an open-owner file has one lock-owner file per lock-owner *)
       /\ (forall o, In o (c_oofs c) -> NoDup (map lf_owner (of_lofs o))).
Proof.
  intros cfg c0 evs st. pose proof (reachable_low_ok cfg c0 evs) as [L0 [LA [LG LL]]]. fold st in L0, LA, LG, LL.
  pose proof (reachable_full_inv cfg c0 evs) as [I _]. fold st in I.
  assert (Hv : forall c, In c (st_clients st) -> In (vc c) (v_cls (view st))) by (intros c Hc; cbn; apply in_map; exact Hc).
  split; [intros c x Hc Hx; exact (LA (vc c) x (Hv c Hc) Hx)|]. split.
  - intros c1 c2 x1 x2 H1 H2 Hx1 Hx2 E.
    pose proof (LG (vc c1) (vc c2) x1 x2 (Hv c1 H1) (Hv c2 H2) Hx1 Hx2 E) as Eid. cbn [vc vc_id] in Eid.
    assert (c1 = c2) by (eapply (nodup_key_eq c_id); [exact (proj1 I)| | |]; eauto). subst c2. split; [reflexivity|].
    destruct (LL (vc c1) (Hv c1 H1)) as [C1 _]. cbn [vc vc_lows] in C1.
    eapply (nodup_key_eq lo_id); eauto.
  - intros c Hc. destruct (LL (vc c) (Hv c Hc)) as [C1 [C2 [C3 C4]]]. cbn [vc vc_lows vc_oofs] in *.
    split; [exact C2|]. split; [exact C1|]. split; [|split].
    + intros o lf Ho Hlf.
      destruct (lof_registered (vc c) (vo o) (vl lf) (LL (vc c) (Hv c Hc))) as [x [Hx [Hin _]]].
      * cbn. apply in_map. exact Ho.
      * cbn. apply in_map. exact Hlf.
      * exists x. auto.
    + intros x Hx. specialize (C3 (lo_id x)). rewrite (find_lowner_id_in _ x C1 Hx) in C3.
      rewrite files_of_lock_files in C3. destruct C3 as [F1 F2]. split; [exact F1|lia].
    + intros o Ho. specialize (C4 (vo o) (in_map vo _ _ Ho)). cbn [vo vo_lofs] in C4.
      rewrite map_map in C4. exact C4.
Qed.

(* ---- lock counts: hypotheses ---------------------------------------------------------------- *)
(* uint64 (offset, length) other than the pair denoting the empty range
   [2^64-1, 2^64-1) (LockSet: offset_length_nonempty_refuted). *)
Definition req_valid (off len : N) : Prop := off <= u64max /\ len <= u64max /\ ~ (off = u64max /\ len = u64max).
Definition op_valid (o : op) : Prop :=
  match o with
  | OLock _ off len _ => req_valid off len
  | OLockU _ off len => req_valid off len
  | _ => True
  end.
Definition event_valid (e : event) : Prop :=
  match e with ESeqBegin _ _ _ _ _ ops => Forall op_valid ops | _ => True end.

Lemma req_valid_ok : forall off len, req_valid off len -> req_ok qvalid off len.
Proof.
  intros off len [H1 [H2 H3]] s e oid ty E.
  apply (olse_range off len s e H1 H2) in E. destruct E as [E1 [E2 [E3 E4]]].
  unfold qvalid. cbn. split; [|exact E3]. destruct E4 as [E4|E4]; [exact E4|contradiction].
Qed.

Lemma op_valid_ok : forall o, op_valid o -> op_ok qvalid o.
Proof. intros o H. destruct o; cbn in *; auto; apply req_valid_ok; exact H. Qed.

Lemma event_valid_ok : forall e, event_valid e -> event_ok qvalid e.
Proof.
  intros e H. destruct e; cbn in *; auto. eapply Forall_impl; [|exact H]. intros o Ho. apply op_valid_ok. exact Ho.
Qed.

(* The trigger of the known finding "shared lock-owner": a lock-owner object
   referred to by lock-owner files of two open-owner files on the same
   file (of one client; objects belong to one client). *)
Definition shares (c : client) : bool :=
  existsb (fun o1 => existsb (fun o2 =>
     negb (of_other o1 =? of_other o2) && (of_handle o1 =? of_handle o2)
     && existsb (fun l1 => existsb (fun l2 => lf_owner l1 =? lf_owner l2) (of_lofs o2)) (of_lofs o1))
     (c_oofs c)) (c_oofs c).
Definition no_sharing (st : state) : Prop := forallb (fun c => negb (shares c)) (st_clients st) = true.

(* ... has not happened up to any point of the history. *)
Fixpoint never_shared (st : state) (evs : list event) : Prop :=
  match evs with
  | [] => True
  | e :: tl => no_sharing (fst (step st e)) /\ never_shared (fst (step st e)) tl
  end.

Lemma no_sharing_ns : forall st, NoDup (map c_id (st_clients st)) -> no_sharing st -> ns (view st).
Proof.
  intros st Hnd H cid oo1 lo1 oo2 lo2 h own n1 n2
    [c1 [o1 [l1 [A1 [A2 [A3 [A4 [A5 [A6 [A7 [A8 A9]]]]]]]]]]] [c2 [o2 [l2 [B1 [B2 [B3 [B4 [B5 [B6 [B7 [B8 B9]]]]]]]]]]].
  cbn [view v_cls] in A1, B1. apply in_map_iff in A1. destruct A1 as [d1 [<- D1]].
  apply in_map_iff in B1. destruct B1 as [d2 [<- D2]]. cbn [vc vc_oofs vc_id] in *.
  assert (d2 = d1) by (eapply (nodup_key_eq c_id); [exact Hnd| | |]; auto; congruence). subst d2.
  apply in_map_iff in A2. destruct A2 as [p1 [<- P1]]. apply in_map_iff in B2. destruct B2 as [p2 [<- P2]].
  cbn [vo vo_lofs vo_other vo_handle] in *.
  apply in_map_iff in A3. destruct A3 as [m1 [<- M1]]. apply in_map_iff in B3. destruct B3 as [m2 [<- M2]].
  cbn [vl vl_owner] in *. subst.
  destruct (N.eq_dec (of_other p1) (of_other p2)) as [E|Ne]; [exact E|]. exfalso.
  unfold no_sharing in H. rewrite forallb_forall in H. specialize (H d1 D1). apply Bool.negb_true_iff in H.
  assert (Hsh : shares d1 = true); [|congruence].
  unfold shares. apply existsb_exists. exists p1. split; [exact P1|].
  apply existsb_exists. exists p2. split; [exact P2|].
  apply Bool.andb_true_iff. split; [apply Bool.andb_true_iff; split|].
  - apply Bool.negb_true_iff, N.eqb_neq. exact Ne.
  - apply N.eqb_eq. congruence.
  - apply existsb_exists. exists m1. split; [exact M1|]. apply existsb_exists. exists m2. split; [exact M2|].
    apply N.eqb_eq. congruence.
Qed.

(* ---- the invariant over all histories -------------------------------------------------------- *)
Lemma init_linv : forall cfg c0, linv (view (init cfg c0)).
Proof.
  intros. split; [apply acct_vwf; exact (proj1 (init_full cfg c0))|]. split; [apply init_pool_ok|].
  split; [apply init_low_ok|]. split; [intros h; split; [reflexivity|intros k []]|]. split.
  - intros cid oo1 lo1 oo2 lo2 h own n1 n2 [c [o [l [[] _]]]].
  - split; [intros cid oo lo h own cnt [c [o [l [[] _]]]]|]. intros h id Hp. cbn in Hp. lia.
Qed.

Lemma run_linv : forall evs st,
  full_inv st -> linv (view st) -> threads_ok qvalid st -> Forall event_valid evs -> never_shared st evs ->
  linv (view (fst (run st evs))).
Proof.
  induction evs as [|e tl IH]; intros st F Li Th Hv Hn; cbn [run]; [exact Li|].
  inversion Hv as [|? ? He Htl]; subst. destruct Hn as [Hn1 Hn2].
  pose proof (step_view qvalid st e F Th) as V.
  pose proof (step_threads_ok qvalid st e Th (event_valid_ok e He)) as Th1.
  destruct (step_full st e F) as [F1 _].
  destruct (step st e) as [st1 o1]. cbn [fst] in *.
  assert (Li1 : linv (view st1)).
  { eapply vstep_linv; eauto. apply no_sharing_ns; [exact (proj1 (proj1 F1))|exact Hn1]. }
  specialize (IH st1 F1 Li1 Th1 Htl Hn2). destruct (run st1 tl) as [st2 o2]. exact IH.
Qed.

Theorem reachable_linv : forall cfg c0 evs,
  Forall event_valid evs -> never_shared (init cfg c0) evs -> linv (view (reachable cfg c0 evs)).
Proof.
  intros cfg c0 evs Hv Hn. unfold reachable. apply run_linv; auto.
  - apply init_full.
  - apply init_linv.
  - intros t [].
Qed.

(* ---- stated on the model state ------------------------------------------------------------------ *)
(* Entries of lock-owner object [id] in the lock table of file handle [h]. *)
Definition table_entries (st : state) (h id : N) : Z :=
  countz (fun k => LS.lowner k =? id) (pool_locks h (st_pool st)).

Lemma lockcount_exact_lemma : forall cfg c0 evs,
  Forall event_valid evs -> never_shared (init cfg c0) evs ->
  let st := reachable cfg c0 evs in
  (* lockCount = entries held *)
  (forall c o lf, In c (st_clients st) -> In o (c_oofs c) -> In lf (of_lofs o) ->
     lf_count lf = table_entries st (of_handle o) (lf_owner lf) /\ (0 <= lf_count lf)%Z)
  (* every entry belongs to a lock-owner file of that file *)
  /\ (forall h k, In k (pool_locks h (st_pool st)) ->
        exists c o lf, In c (st_clients st) /\ In o (c_oofs c) /\ of_live o = true /\ In lf (of_lofs o)
                       /\ of_handle o = h /\ lf_owner lf = LS.lowner k)
  (* the tables are well formed (LockSet: sorted, per owner disjoint and merged) *)
  /\ (forall h, LSS.wf (pool_locks h (st_pool st)) = true).
Proof.
  intros cfg c0 evs Hv Hn st. pose proof (reachable_linv cfg c0 evs Hv Hn) as [W [P [L [T [Ns [E O]]]]]]. fold st in W, P, L, T, Ns, E, O.
  split; [|split].
  - intros c o lf Hc Ho Hlf.
    assert (Hl : lof (view st) (c_id c) (of_other o) (lf_other lf) (of_handle o) (lf_owner lf) (lf_count lf)).
    { exists (vc c), (vo o), (vl lf). cbn. repeat split; auto; apply in_map; assumption. }
    pose proof (E _ _ _ _ _ _ Hl) as Ec. unfold tcount, tcnt, mine in Ec. cbn [view v_pool] in Ec.
    unfold table_entries. split; [symmetry; exact Ec|]. rewrite <- Ec. apply countz_nonneg.
  - intros h k Hk.
    assert (Hp : (0 < tcount h (LS.lowner k) (v_pool (view st)))%Z).
    { unfold tcount, tcnt. cbn [view v_pool].
      pose proof (countz_pos_in (mine (LS.lowner k)) _ k Hk) as H1. unfold mine in H1 at 1. rewrite N.eqb_refl in H1.
      specialize (H1 eq_refl). lia. }
    destruct (O _ _ Hp) as [cid [oo [lo [cnt [c [o [l [A1 [A2 [A3 [A4 [A5 [A6 [A7 [A8 A9]]]]]]]]]]]]]]].
    cbn [view v_cls] in A1. apply in_map_iff in A1. destruct A1 as [c1 [<- C1]]. cbn [vc vc_oofs] in A2.
    apply in_map_iff in A2. destruct A2 as [o1 [<- O1]]. cbn [vo vo_lofs vo_handle] in *.
    apply in_map_iff in A3. destruct A3 as [l1 [<- L1]]. cbn [vl vl_owner] in A8.
    exists c1, o1, l1. repeat split; auto.
    pose proof (reachable_full_inv cfg c0 evs) as [I _]. fold st in I.
    destruct I as [_ [_ [I3 _]]]. destruct (I3 c1 C1) as [_ [N2 _]]. destruct (N2 o1 O1) as [_ [_ [D _]]].
    destruct (of_live o1); [reflexivity|]. destruct (D eq_refl) as [_ Dn]. rewrite Dn in L1. destruct L1.
  - intros h. exact (proj1 (T h)).
Qed.
