(* Shared vocabulary of the correspondence evaluators (Corr.v of each area).
   A case file written by the Go harness contains, per case, the history
   that was run on the implementation and what the implementation
   answered; [check_case] of the area evaluates, inside the kernel's VM,
   (a) the model on the same history (mismatch = first step at which the
   model's observable output differs) and (b) the property predicate P on
   the implementation's own trace (violation = first step at which P is
   false, with a short kind string used for known-finding signatures). *)
From Coq Require Export String List.
Export ListNotations.

Inductive verdict :=
| VOk
| VMismatch (step : nat) (what : string)
| VViolation (step : nat) (kind : string).

(* A violation takes precedence over a mismatch: it is about the
   implementation trace alone. *)
Definition vcombine (viol mism : verdict) : verdict :=
  match viol with
  | VViolation _ _ => viol
  | _ => mism
  end.
