(* Shared vocabulary of the correspondence evaluators (Corr.v of each area).
   A case file written by the Go harness contains, per case, the history
   that was run on the implementation and what the implementation
   answered; [check_case] of the area evaluates, inside the kernel's VM,
   (a) the model on the same history (mismatch = first step at which the
   model's observable output differs) and (b) the property predicate P on
   the implementation's own trace (violation = first step at which P is
   false, with a short kind string used for known-finding signatures). *)
From Coq Require Export String List.
Export ListNotations.

Inductive verdict :=
| VOk
| VMismatch (step : nat) (what : string)
| VViolation (step : nat) (kind : string).

(* decimal rendering of a step number *)
Fixpoint vnat_aux (fuel n : nat) (acc : string) : string :=
  match fuel with
  | O => acc
  | S f =>
    let d := String (Ascii.ascii_of_nat (48 + Nat.modulo n 10)) EmptyString in
    match Nat.div n 10 with
    | O => (d ++ acc)%string
    | q => vnat_aux f q (d ++ acc)%string
    end
  end.
Definition vnat (n : nat) : string := vnat_aux (S n) n "".

(* A violation takes precedence over a mismatch: it is about the
   implementation trace alone.  When the model disagrees with the
   implementation as well, the verdict says so after the violation kinds
   (";mismatch:<what>@<step>"): a check that decides another property than
   the violated ones must still learn that the correspondence is broken. *)
Definition vcombine (viol mism : verdict) : verdict :=
  match viol, mism with
  | VViolation st k, VMismatch st' what =>
    VViolation st (k ++ ";mismatch:" ++ what ++ "@" ++ vnat st')%string
  | VViolation st k, VViolation st' k' => VViolation st (k ++ ";" ++ k' ++ "@" ++ vnat st')%string
  | VViolation _ _, _ => viol
  | _, _ => mism
  end.
