(* NFSv4.0 (C18/C19/C20) — the property theorems, and nothing else. *)
From VF Require Import Nfs40.Model Nfs40.Dump Nfs40.Spec.

(* transactionShouldComplete: the sequence id advances for every status but
   the eight listed in RFC 7530 section 9.1.7. *)
Theorem should_complete_list : forall st,
  should_complete st = false <->
  In st [ERR_STALE_CLIENTID; ERR_STALE_STATEID; ERR_BAD_STATEID; ERR_BAD_SEQID;
         ERR_BADXDR; ERR_RESOURCE; ERR_NOFILEHANDLE; ERR_MOVED].
Proof.
  intro st. unfold should_complete. rewrite Bool.negb_false_iff. repeat rewrite Bool.orb_true_iff.
  repeat rewrite N.eqb_eq. simpl. intuition congruence.
Qed.
Print Assumptions should_complete_list.
