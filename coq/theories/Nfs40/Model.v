(* Model of the state-accounting core of
     /repo/pkg/filesystem/virtual/nfsv4/nfs40_program.go
     /repo/pkg/filesystem/virtual/nfsv4/opened_files_pool.go
   One model event = one critical section of nfs40Program.lock (DESIGN §2).
   The nested Go objects are flattened into keyed tables:
     client confirmations  keyed by short client id
     open-owners           keyed by (short client id, owner)
     open-owner files      keyed by the state ID's 'other' field
     lock-owners           keyed by (short client id, owner), plus an object id
                           (the address &los.owner used by the lock table)
     lock-owner files      keyed by 'other'
     opened files pool     keyed by file handle
   Everything the Go code draws from the injected random number generator
   (short client ids, server verifiers, 'other' fields) is drawn here from
   the counter [st_rng]; the harness injects the same counter.
   Closes of leaves collected in leavesToClose are accumulated in [st_ll]
   and flushed as outputs at the end of the event. Go panics set [st_panic]. *)
From Coq Require Export List NArith ZArith Bool String.
From VF Require LockSet.Model.
Export ListNotations.
Module LS := VF.LockSet.Model.
Open Scope N_scope.

(* ---- nfsstat4 ----------------------------------------------------------- *)
Definition NFS4_OK : N := 0.
Definition ERR_INVAL : N := 22.
Definition ERR_EXIST : N := 17.
Definition ERR_NOTDIR : N := 20.
Definition ERR_ISDIR : N := 21.
Definition ERR_STALE : N := 70.
Definition ERR_NOTSUPP : N := 10004.
Definition ERR_DELAY : N := 10008.
Definition ERR_DENIED : N := 10010.
Definition ERR_SHARE_DENIED : N := 10015.
Definition ERR_RESOURCE : N := 10018.
Definition ERR_MOVED : N := 10019.
Definition ERR_NOFILEHANDLE : N := 10020.
Definition ERR_STALE_CLIENTID : N := 10022.
Definition ERR_STALE_STATEID : N := 10023.
Definition ERR_OLD_STATEID : N := 10024.
Definition ERR_BAD_STATEID : N := 10025.
Definition ERR_BAD_SEQID : N := 10026.
Definition ERR_RECLAIM_BAD : N := 10034.
Definition ERR_BADXDR : N := 10036.
Definition ERR_LOCKS_HELD : N := 10037.
Definition ERR_OPENMODE : N := 10038.
Definition ERR_BADNAME : N := 10041.

(* transactionShouldComplete (RFC 7530 9.1.7, last paragraph) *)
Definition should_complete (st : N) : bool :=
  negb ((st =? ERR_STALE_CLIENTID) || (st =? ERR_STALE_STATEID) || (st =? ERR_BAD_STATEID)
        || (st =? ERR_BAD_SEQID) || (st =? ERR_BADXDR) || (st =? ERR_RESOURCE)
        || (st =? ERR_NOFILEHANDLE) || (st =? ERR_MOVED)).

(* ---- share masks -------------------------------------------------------- *)
Record mask := mkMask { m_r : bool; m_w : bool }.
Definition mask_none := mkMask false false.
Definition mask_empty (m : mask) : bool := negb (m_r m) && negb (m_w m).
Definition mask_or (a b : mask) := mkMask (m_r a || m_r b) (m_w a || m_w b).
Definition mask_diff (a b : mask) := mkMask (m_r a && negb (m_r b)) (m_w a && negb (m_w b)).
Definition mask_eqb (a b : mask) := Bool.eqb (m_r a) (m_r b) && Bool.eqb (m_w a) (m_w b).
Definition mask_subset (a b : mask) : bool := mask_empty (mask_diff a b).
(* nfs40ShareAccessToShareMask *)
Definition access_to_mask (a : N) : option mask :=
  if a =? 1 then Some (mkMask true false)
  else if a =? 2 then Some (mkMask false true)
  else if a =? 3 then Some (mkMask true true) else None.

(* ---- sequence ids ------------------------------------------------------- *)
Definition max_u32 : N := 4294967295.
Definition next_seq (s : N) : N := if s =? max_u32 then 1 else s + 1.
(* nfs40CompareStateSeqID: int32(client-server) > 0 -> BAD_STATEID else OLD_STATEID *)
Definition compare_state_seq (client server : N) : N :=
  if client =? server then NFS4_OK
  else let d := (client + 4294967296 - server) mod 4294967296 in
       if (0 <? d) && (d <? 2147483648) then ERR_BAD_STATEID else ERR_OLD_STATEID.

(* ---- requests ----------------------------------------------------------- *)
Inductive sother := SoAnon | SoBypass | SoStale | SoReg (o : N).
Record stateid := mkSid { sid_seq : N; sid_other : sother }.

Inductive curfh := FhNone | FhRoot | FhFile (h : N) (linked : bool).
Inductive nameclass := NmEmpty | NmBad | NmOk (n : N).
Inductive openhow := HowNoCreate | HowUnchecked | HowGuarded | HowExclusive.
Inductive claim := ClNull (nm : nameclass) | ClPrev (deleg : N) | ClDelegCur | ClDelegPrev.
Record open_args := mkOpenArgs {
  oa_client : N; oa_owner : N; oa_seq : N; oa_access : N; oa_deny : N;
  oa_how : openhow; oa_claim : claim }.
Inductive iokind := IoRead | IoWrite | IoSetattr.

Inductive req :=
| RSetClientId (long cverf : N)
| RSetClientIdConfirm (short sverf : N)
| RRenew (short : N)
| ROpen (a : open_args)
| ROpenConfirm (sid : stateid) (seq : N)
| ROpenDowngrade (sid : stateid) (seq access deny : N)
| RClose (sid : stateid) (seq : N)
| RLockNew (ltype off len : N) (osid : stateid) (oseq lseq lclient lowner : N)
| RLockOld (ltype off len : N) (lsid : stateid) (lseq : N)
| RLockT (ltype off len client owner : N)
| RLockU (ltype seq : N) (lsid : stateid) (off len : N)
| RReleaseLockOwner (client owner : N)
| RIo (k : iokind) (sid : stateid) (openerr ioerr : N)   (* the two statuses are the leaf's answers (oracle) on the special-state-ID path *)
| RResolve.

Inductive oresult := OrErr (st : N) | OrOk (h : N).

Inductive event :=
| EReq (g : N) (t : Z) (fh : curfh) (r : req)        (* goroutine g runs the request from the top; clock reads t *)
| EOpenRet (g : N) (t : Z) (res : oresult)           (* g returns from VirtualOpenChild/VirtualOpenSelf *)
| EIoRet (g : N) (t : Z) (st : N).                   (* g returns from the leaf I/O call *)

(* ---- replies ------------------------------------------------------------ *)
Inductive opres :=
| ResStatus (st : N)
| ResSetClientId (short sverf : N)
| ResOpen (seq other : N) (confirm : bool)
| ResStateid (seq other : N)
| ResDenied (off len ltype client owner : N).

Definition status_of (r : opres) : N :=
  match r with ResStatus st => st | ResDenied _ _ _ _ _ => ERR_DENIED | _ => NFS4_OK end.

Inductive reply :=
| RpPutfhFail (st : N)
| RpOp (r : opres)
| RpParkedOpen          (* parked in VirtualOpenChild / VirtualOpenSelf *)
| RpParkedIo            (* parked in the leaf's read/write/setattr *)
| RpBlocked             (* waiting for the open-owner's current transaction *)
| RpPanic
| RpHang.                (* only on implementation traces: a call never returned *)

Record leafcall := mkCall { lc_h : N; lc_open : bool; lc_mask : mask }.

(* ---- state -------------------------------------------------------------- *)
Record conf := mkConf { cf_short : N; cf_sverf : N; cf_long : N; cf_cverf : N;
                        cf_lastseen : Z; cf_hold : N }.
Inductive rkind := KOpen | KOpenConfirm | KOpenDowngrade | KClose | KLock | KLocku.
Record cached := mkCached { ca_kind : rkind; ca_res : opres; ca_closed : option N }.
Record oos := mkOos { oo_client : N; oo_key : N; oo_confirmed : bool; oo_lastseq : N;
                      oo_last : option cached; oo_intx : bool; oo_lastused : Z }.
Record oofs := mkOofs { of_other : N; of_seq : N; of_client : N; of_owner : N; of_handle : N;
                        of_sa : mask; of_rd : N; of_wr : N; of_live : bool }.
Record los := mkLos { lo_client : N; lo_key : N; lo_id : N; lo_lastseq : N; lo_last : option cached }.
Record lofs := mkLofs { lf_other : N; lf_seq : N; lf_client : N; lf_lokey : N; lf_oofs : N;
                        lf_sa : mask; lf_count : Z }.
Record pfile := mkPfile { pf_handle : N; pf_use : N; pf_locks : list LS.lock }.
Inductive pending :=
| POpen (client key seq : N) (access : mask) (prev : option N) (ll : list leafcall)   (* ll: leavesToClose collected before the lock was dropped *)
| PIo (other client : N) (cloned : mask).

Record state := mkState {
  st_now : Z; st_rng : N; st_next_id : N;
  st_confs : list conf;
  st_confirmed : list (N * N);        (* long id -> short id of the confirmed confirmation *)
  st_idle : list N;                   (* idleClientConfirmations, head first *)
  st_oos : list oos;
  st_unused : list (N * N);           (* unusedOpenOwners, head first *)
  st_oofs : list oofs;                (* of_live = still in openOwnerFilesByOther *)
  st_los : list los;
  st_lofs : list lofs;
  st_pool : list pfile;
  st_pending : list (N * pending);
  st_ll : list leafcall;
  st_panic : bool }.

Definition lease : Z := 100.
Definition rng_base : N := 1000.
Definition init : state := mkState 0 rng_base 1 [] [] [] [] [] [] [] [] [] [] [] false.

Definition w_now s v := mkState v (st_rng s) (st_next_id s) (st_confs s) (st_confirmed s) (st_idle s) (st_oos s) (st_unused s) (st_oofs s) (st_los s) (st_lofs s) (st_pool s) (st_pending s) (st_ll s) (st_panic s).
Definition w_rng s v := mkState (st_now s) v (st_next_id s) (st_confs s) (st_confirmed s) (st_idle s) (st_oos s) (st_unused s) (st_oofs s) (st_los s) (st_lofs s) (st_pool s) (st_pending s) (st_ll s) (st_panic s).
Definition w_next_id s v := mkState (st_now s) (st_rng s) v (st_confs s) (st_confirmed s) (st_idle s) (st_oos s) (st_unused s) (st_oofs s) (st_los s) (st_lofs s) (st_pool s) (st_pending s) (st_ll s) (st_panic s).
Definition w_confs s v := mkState (st_now s) (st_rng s) (st_next_id s) v (st_confirmed s) (st_idle s) (st_oos s) (st_unused s) (st_oofs s) (st_los s) (st_lofs s) (st_pool s) (st_pending s) (st_ll s) (st_panic s).
Definition w_confirmed s v := mkState (st_now s) (st_rng s) (st_next_id s) (st_confs s) v (st_idle s) (st_oos s) (st_unused s) (st_oofs s) (st_los s) (st_lofs s) (st_pool s) (st_pending s) (st_ll s) (st_panic s).
Definition w_idle s v := mkState (st_now s) (st_rng s) (st_next_id s) (st_confs s) (st_confirmed s) v (st_oos s) (st_unused s) (st_oofs s) (st_los s) (st_lofs s) (st_pool s) (st_pending s) (st_ll s) (st_panic s).
Definition w_oos s v := mkState (st_now s) (st_rng s) (st_next_id s) (st_confs s) (st_confirmed s) (st_idle s) v (st_unused s) (st_oofs s) (st_los s) (st_lofs s) (st_pool s) (st_pending s) (st_ll s) (st_panic s).
Definition w_unused s v := mkState (st_now s) (st_rng s) (st_next_id s) (st_confs s) (st_confirmed s) (st_idle s) (st_oos s) v (st_oofs s) (st_los s) (st_lofs s) (st_pool s) (st_pending s) (st_ll s) (st_panic s).
Definition w_oofs s v := mkState (st_now s) (st_rng s) (st_next_id s) (st_confs s) (st_confirmed s) (st_idle s) (st_oos s) (st_unused s) v (st_los s) (st_lofs s) (st_pool s) (st_pending s) (st_ll s) (st_panic s).
Definition w_los s v := mkState (st_now s) (st_rng s) (st_next_id s) (st_confs s) (st_confirmed s) (st_idle s) (st_oos s) (st_unused s) (st_oofs s) v (st_lofs s) (st_pool s) (st_pending s) (st_ll s) (st_panic s).
Definition w_lofs s v := mkState (st_now s) (st_rng s) (st_next_id s) (st_confs s) (st_confirmed s) (st_idle s) (st_oos s) (st_unused s) (st_oofs s) (st_los s) v (st_pool s) (st_pending s) (st_ll s) (st_panic s).
Definition w_pool s v := mkState (st_now s) (st_rng s) (st_next_id s) (st_confs s) (st_confirmed s) (st_idle s) (st_oos s) (st_unused s) (st_oofs s) (st_los s) (st_lofs s) v (st_pending s) (st_ll s) (st_panic s).
Definition w_pending s v := mkState (st_now s) (st_rng s) (st_next_id s) (st_confs s) (st_confirmed s) (st_idle s) (st_oos s) (st_unused s) (st_oofs s) (st_los s) (st_lofs s) (st_pool s) v (st_ll s) (st_panic s).
Definition w_ll s v := mkState (st_now s) (st_rng s) (st_next_id s) (st_confs s) (st_confirmed s) (st_idle s) (st_oos s) (st_unused s) (st_oofs s) (st_los s) (st_lofs s) (st_pool s) (st_pending s) v (st_panic s).
Definition w_panic s v := mkState (st_now s) (st_rng s) (st_next_id s) (st_confs s) (st_confirmed s) (st_idle s) (st_oos s) (st_unused s) (st_oofs s) (st_los s) (st_lofs s) (st_pool s) (st_pending s) (st_ll s) v.
Definition panic (s : state) : state := w_panic s true.

(* ---- generic table helpers ---------------------------------------------- *)
Definition pair_eqb (a b : N * N) : bool := (fst a =? fst b) && (snd a =? snd b).

Fixpoint find_by {A} (p : A -> bool) (l : list A) : option A :=
  match l with [] => None | x :: tl => if p x then Some x else find_by p tl end.
Fixpoint upd_by {A} (p : A -> bool) (f : A -> A) (l : list A) : list A :=
  match l with [] => [] | x :: tl => if p x then f x :: tl else x :: upd_by p f tl end.
Definition del_by {A} (p : A -> bool) (l : list A) : list A := filter (fun x => negb (p x)) l.
Definition count_by {A} (p : A -> bool) (l : list A) : N := N.of_nat (List.length (filter p l)).

(* the random number generator: one counter value per call *)
Definition draw (s : state) : N * state := (st_rng s, w_rng s (st_rng s + 1)).

(* ---- lookups ------------------------------------------------------------ *)
Definition find_conf (short : N) s := find_by (fun c => cf_short c =? short) (st_confs s).
Definition upd_conf (short : N) f s := w_confs s (upd_by (fun c => cf_short c =? short) f (st_confs s)).
Definition confirmed_of (long : N) s : option N :=
  match find_by (fun p => fst p =? long) (st_confirmed s) with Some p => Some (snd p) | None => None end.
(* getConfirmedClientByShortID *)
Definition confirmed_client (short : N) s : bool :=
  match find_conf short s with
  | Some c => match confirmed_of (cf_long c) s with Some sh => sh =? short | None => false end
  | None => false
  end.
Definition oos_is (ck : N * N) (o : oos) := pair_eqb (oo_client o, oo_key o) ck.
Definition find_oos ck s := find_by (oos_is ck) (st_oos s).
Definition upd_oos ck f s := w_oos s (upd_by (oos_is ck) f (st_oos s)).
Definition find_oofs (other : N) s := find_by (fun o => of_other o =? other) (st_oofs s).
Definition find_live_oofs (other : N) s := find_by (fun o => (of_other o =? other) && of_live o) (st_oofs s).
Definition upd_oofs (other : N) f s := w_oofs s (upd_by (fun o => of_other o =? other) f (st_oofs s)).
Definition oofs_of_owner (ck : N * N) (o : oofs) := of_live o && pair_eqb (of_client o, of_owner o) ck.
Definition los_is (lk : N * N) (l : los) := pair_eqb (lo_client l, lo_key l) lk.
Definition find_los lk s := find_by (los_is lk) (st_los s).
Definition upd_los lk f s := w_los s (upd_by (los_is lk) f (st_los s)).
Definition find_lofs (other : N) s := find_by (fun l => lf_other l =? other) (st_lofs s).
Definition upd_lofs (other : N) f s := w_lofs s (upd_by (fun l => lf_other l =? other) f (st_lofs s)).
Definition lofs_of_los (lk : N * N) (l : lofs) := pair_eqb (lf_client l, lf_lokey l) lk.
Definition find_pfile (h : N) s := find_by (fun p => pf_handle p =? h) (st_pool s).
Definition upd_pfile (h : N) f s := w_pool s (upd_by (fun p => pf_handle p =? h) f (st_pool s)).

(* ---- opened files pool -------------------------------------------------- *)
Definition pool_open (h : N) s : state :=
  match find_pfile h s with
  | Some _ => upd_pfile h (fun p => mkPfile (pf_handle p) (pf_use p + 1) (pf_locks p)) s
  | None => w_pool s (st_pool s ++ [mkPfile h 1 []])
  end.
Definition pool_close (h : N) s : state :=
  match find_pfile h s with
  | Some p => if pf_use p <=? 1 then w_pool s (del_by (fun p => pf_handle p =? h) (st_pool s))
              else upd_pfile h (fun p => mkPfile (pf_handle p) (pf_use p - 1) (pf_locks p)) s
  | None => panic s
  end.

(* ---- leavesToClose ------------------------------------------------------ *)
Definition emit_close (h : N) (m : mask) s : state :=
  if mask_empty m then s else w_ll s (mkCall h false m :: st_ll s).

(* ---- share counts ------------------------------------------------------- *)
(* referenceCount.decrease on one bit: new count, became zero, panicked *)
Definition dec_count (n : N) (b : bool) : N * bool * bool :=
  if b then (if n =? 0 then (0, false, true) else (n - 1, n =? 1, false)) else (n, false, false).
(* referenceCount.increase *)
Definition inc_count (n : N) (b : bool) : N * bool :=
  if b then (if n =? 0 then (n, true) else (n + 1, false)) else (n, false).

(* An open-owner file object that has left the tables stays in the store
   only while in-flight I/O still holds share reservations on it. *)
Definition gc_oofs (other : N) s : state :=
  w_oofs s (del_by (fun o => (of_other o =? other) && negb (of_live o) && (of_rd o =? 0) && (of_wr o =? 0)) (st_oofs s)).

(* shareCount.downgrade + downgradeShareAccess for the bits in [cleared];
   the caller updates the share mask the bits were taken from. *)
Definition oofs_release (other : N) (cleared : mask) s : state :=
  match find_oofs other s with
  | None => panic s
  | Some o =>
    let '(rd, zr, pr) := dec_count (of_rd o) (m_r cleared) in
    let '(wr, zw, pw) := dec_count (of_wr o) (m_w cleared) in
    let s := upd_oofs other (fun o => mkOofs (of_other o) (of_seq o) (of_client o) (of_owner o) (of_handle o) (of_sa o) rd wr (of_live o)) s in
    let s := emit_close (of_handle o) (mkMask zr zw) s in
    let s := if pr || pw then panic s else s in
    gc_oofs other s
  end.
(* shareCount.clone *)
Definition oofs_clone (other : N) (m : mask) s : state :=
  match find_oofs other s with
  | None => panic s
  | Some o =>
    let '(rd, pr) := inc_count (of_rd o) (m_r m) in
    let '(wr, pw) := inc_count (of_wr o) (m_w m) in
    let s := upd_oofs other (fun o => mkOofs (of_other o) (of_seq o) (of_client o) (of_owner o) (of_handle o) (of_sa o) rd wr (of_live o)) s in
    if pr || pw then panic s else s
  end.
Definition oofs_set_sa (other : N) (m : mask) s : state :=
  upd_oofs other (fun o => mkOofs (of_other o) (of_seq o) (of_client o) (of_owner o) (of_handle o) m (of_rd o) (of_wr o) (of_live o)) s.
Definition oofs_bump_seq (other : N) s : state :=
  upd_oofs other (fun o => mkOofs (of_other o) (next_seq (of_seq o)) (of_client o) (of_owner o) (of_handle o) (of_sa o) (of_rd o) (of_wr o) (of_live o)) s.
(* nfs40OpenOwnerFileState.upgrade: shareCount.upgrade, close the redundantly
   opened leaf for the overlap, bump the state ID *)
Definition oofs_upgrade (other : N) (acc : mask) s : state :=
  match find_oofs other s with
  | None => panic s
  | Some o =>
    let ovr := m_r acc && (0 <? of_rd o) in
    let ovw := m_w acc && (0 <? of_wr o) in
    let rd := if m_r acc && negb (m_r (of_sa o)) then of_rd o + 1 else of_rd o in
    let wr := if m_w acc && negb (m_w (of_sa o)) then of_wr o + 1 else of_wr o in
    let s := upd_oofs other (fun o => mkOofs (of_other o) (next_seq (of_seq o)) (of_client o) (of_owner o) (of_handle o) (mask_or (of_sa o) acc) rd wr (of_live o)) s in
    emit_close (of_handle o) (mkMask ovr ovw) s
  end.

(* ---- client confirmations: hold / release ------------------------------ *)
Definition hold (short : N) s : state :=
  match find_conf short s with
  | None => panic s
  | Some c =>
    let s := if cf_hold c =? 0 then w_idle s (del_by (N.eqb short) (st_idle s)) else s in
    upd_conf short (fun c => mkConf (cf_short c) (cf_sverf c) (cf_long c) (cf_cverf c) (cf_lastseen c) (cf_hold c + 1)) s
  end.
Definition release (short : N) s : state :=
  match find_conf short s with
  | None => panic s
  | Some c =>
    if cf_hold c =? 0 then panic s
    else if cf_hold c =? 1 then
      w_idle (upd_conf short (fun c => mkConf (cf_short c) (cf_sverf c) (cf_long c) (cf_cverf c) (st_now s) 0) s)
             (st_idle s ++ [short])
    else upd_conf short (fun c => mkConf (cf_short c) (cf_sverf c) (cf_long c) (cf_cverf c) (cf_lastseen c) (cf_hold c - 1)) s
  end.

(* ---- lock-owner files --------------------------------------------------- *)
Definition unlock_all_lock (id : N) : LS.lock := LS.mkLock 0 LS.max_u64 id LS.Unlocked.

(* nfs40LockOwnerFileState.remove *)
Definition lofs_remove (other : N) s : state :=
  match find_lofs other s with
  | None => s
  | Some lf =>
    let lk := (lf_client lf, lf_lokey lf) in
    let s :=
      if (0 <? lf_count lf)%Z then
        match find_oofs (lf_oofs lf) s, find_los lk s with
        | Some o, Some l =>
          match find_pfile (of_handle o) s with
          | Some p =>
            let r := LS.set (pf_locks p) (unlock_all_lock (lo_id l)) in
            let s := upd_pfile (of_handle o) (fun p => mkPfile (pf_handle p) (pf_use p) (LS.set_list r)) s in
            if LS.set_panic r || negb (lf_count lf + LS.set_delta r =? 0)%Z then panic s else s
          | None => panic s
          end
        | _, _ => panic s
        end
      else s in
    let s := w_lofs s (del_by (fun l => lf_other l =? other) (st_lofs s)) in
    let s := oofs_release (lf_oofs lf) (lf_sa lf) s in
    if existsb (lofs_of_los lk) (st_lofs s) then s
    else w_los s (del_by (los_is lk) (st_los s))
  end.

(* ---- open-owner files --------------------------------------------------- *)
Definition lofs_others_of_oofs (other : N) s : list N :=
  map lf_other (filter (fun l => lf_oofs l =? other) (st_lofs s)).
(* removeStart *)
Definition oofs_remove_start (other : N) s : state :=
  let s := fold_left (fun s o => lofs_remove o s) (lofs_others_of_oofs other s) s in
  match find_oofs other s with
  | None => panic s
  | Some o => oofs_set_sa other mask_none (oofs_release other (of_sa o) s)
  end.
(* removeFinalize *)
Definition oofs_finalize (other : N) s : state :=
  match find_oofs other s with
  | None => panic s
  | Some o =>
    (* a second removeFinalize of the same object dereferences its nil openOwner *)
    if of_live o then
      let s := upd_oofs other (fun o => mkOofs (of_other o) (of_seq o) (of_client o) (of_owner o) (of_handle o) (of_sa o) (of_rd o) (of_wr o) false) s in
      gc_oofs other (pool_close (of_handle o) s)
    else panic s
  end.

(* ---- open-owners -------------------------------------------------------- *)
Definition set_oos_last (ck : N * N) (v : option cached) s :=
  upd_oos ck (fun o => mkOos (oo_client o) (oo_key o) (oo_confirmed o) (oo_lastseq o) v (oo_intx o) (oo_lastused o)) s.
(* forgetLastResponse *)
Definition forget_last (ck : N * N) s : state :=
  match find_oos ck s with
  | Some o =>
    match oo_last o with
    | Some c => let s := set_oos_last ck None s in
                match ca_closed c with Some other => oofs_finalize other s | None => s end
    | None => s
    end
  | None => s
  end.
Definition oofs_others_of_owner (ck : N * N) s : list N :=
  map of_other (filter (oofs_of_owner ck) (st_oofs s)).
(* reinitialize *)
Definition oos_reinit (ck : N * N) s : state :=
  let s := match find_oos ck s with Some o => if oo_intx o then panic s else s | None => s end in
  let s := forget_last ck s in
  fold_left (fun s o => oofs_finalize o (oofs_remove_start o s)) (oofs_others_of_owner ck s) s.
(* remove *)
Definition oos_remove (ck : N * N) s : state :=
  let s := oos_reinit ck s in
  let s := w_unused s (del_by (pair_eqb ck) (st_unused s)) in
  w_oos s (del_by (oos_is ck) (st_oos s)).
(* isUnused *)
Definition is_unused (ck : N * N) s : bool :=
  match find_oos ck s with
  | None => false
  | Some o =>
    let n := count_by (oofs_of_owner ck) (st_oofs s) in
    (n =? 0)
    || ((n =? 1) && match oo_last o with Some c => match ca_closed c with Some _ => true | None => false end | None => false end)
    || negb (oo_confirmed o)
  end.

(* clientConfirmationState.remove *)
Definition conf_remove (short : N) s : state :=
  match find_conf short s with
  | None => s
  | Some c =>
    let s := if cf_hold c =? 0 then s else panic s in
    let s :=
      match confirmed_of (cf_long c) s with
      | Some sh =>
        if sh =? short then
          let cks := map (fun o => (oo_client o, oo_key o)) (filter (fun o => oo_client o =? short) (st_oos s)) in
          let s := fold_left (fun s ck => oos_remove ck s) cks s in
          let s := if existsb (fun l => lo_client l =? short) (st_los s) then panic s else s in
          w_confirmed s (del_by (fun p => fst p =? cf_long c) (st_confirmed s))
        else s
      | None => s
      end in
    let s := w_confs s (del_by (fun c => cf_short c =? short) (st_confs s)) in
    w_idle s (del_by (N.eqb short) (st_idle s))
  end.

(* ---- enter(): lease expiry --------------------------------------------- *)
Fixpoint expire_confs (fuel : nat) (minseen : Z) s : state :=
  match fuel with
  | O => s
  | S fuel =>
    match st_idle s with
    | short :: _ =>
      match find_conf short s with
      | Some c => if (cf_lastseen c <? minseen)%Z then expire_confs fuel minseen (conf_remove short s) else s
      | None => panic s
      end
    | [] => s
    end
  end.
Fixpoint expire_oos (fuel : nat) (minseen : Z) s : state :=
  match fuel with
  | O => s
  | S fuel =>
    match st_unused s with
    | ck :: _ =>
      match find_oos ck s with
      | Some o => if (oo_lastused o <? minseen)%Z then expire_oos fuel minseen (oos_remove ck s) else s
      | None => panic s
      end
    | [] => s
    end
  end.
Definition enter (t : Z) s : state :=
  let s := w_now s (Z.max (st_now s) t) in
  let minseen := (st_now s - lease)%Z in
  let s := expire_confs (List.length (st_idle s)) minseen s in
  expire_oos (List.length (st_unused s)) minseen s.

(* ---- open-owner transactions ------------------------------------------- *)
Inductive policy := PolAllow | PolDeny | PolReinit.
Inductive txstart := TxReplay (c : cached) | TxFail (st : N) | TxStarted.

Definition set_oos_intx (ck : N * N) (v : bool) s :=
  upd_oos ck (fun o => mkOos (oo_client o) (oo_key o) (oo_confirmed o) (oo_lastseq o) (oo_last o) v (oo_lastused o)) s.

(* nfs40OpenOwnerState.startTransaction *)
Definition oos_start_tx (ck : N * N) (seq : N) (pol : policy) s : state * txstart :=
  match find_oos ck s with
  | None => (panic s, TxFail ERR_BAD_SEQID)
  | Some o =>
    let s := if oo_intx o then panic s else s in
    match (match oo_last o with Some c => if seq =? oo_lastseq o then Some c else None | None => None end) with
    | Some c => (s, TxReplay c)
    | None =>
      let nextok := seq =? next_seq (oo_lastseq o) in
      let '(s, fail) :=
        if oo_confirmed o then (s, negb nextok)
        else match pol with
             | PolAllow => (s, negb nextok)
             | PolDeny => (s, true)
             | PolReinit => (oos_reinit ck s, false)
             end in
      if fail then (s, TxFail ERR_BAD_SEQID)
      else
        let s := forget_last ck s in
        let s := set_oos_intx ck true s in
        let s := w_unused s (del_by (pair_eqb ck) (st_unused s)) in
        (hold (fst ck) s, TxStarted)
    end
  end.

(* openOwnerTransaction.complete *)
Definition oos_complete_tx (ck : N * N) (seq : N) (c : cached) s : state :=
  let s := set_oos_intx ck false s in
  let s := if should_complete (status_of (ca_res c))
           then upd_oos ck (fun o => mkOos (oo_client o) (oo_key o) (oo_confirmed o) seq (Some c) (oo_intx o) (oo_lastused o)) s
           else s in
  let s := if is_unused ck s
           then w_unused (upd_oos ck (fun o => mkOos (oo_client o) (oo_key o) (oo_confirmed o) (oo_lastseq o) (oo_last o) (oo_intx o) (st_now s)) s)
                         (st_unused s ++ [ck])
           else s in
  release (fst ck) s.

(* ---- lock-owner transactions ------------------------------------------- *)
Definition los_start_tx (lk : N * N) (seq : N) (initial : bool) s : state * txstart :=
  match find_los lk s with
  | None => (panic s, TxFail ERR_BAD_SEQID)
  | Some l =>
    match (match lo_last l with Some c => if seq =? lo_lastseq l then Some c else None | None => None end) with
    | Some c => (s, TxReplay c)
    | None =>
      if negb initial && negb (seq =? next_seq (lo_lastseq l)) then (s, TxFail ERR_BAD_SEQID)
      else
        let s := upd_los lk (fun l => mkLos (lo_client l) (lo_key l) (lo_id l) (lo_lastseq l) None) s in
        (hold (fst lk) s, TxStarted)
    end
  end.
Definition los_complete_tx (lk : N * N) (seq : N) (c : cached) s : state :=
  let s := if should_complete (status_of (ca_res c))
           then upd_los lk (fun l => mkLos (lo_client l) (lo_key l) (lo_id l) seq (Some c)) s
           else s in
  release (fst lk) s.

(* ---- state ID handling -------------------------------------------------- *)
Inductive cur := CurNone | CurRoot | CurLeaf (h : N).
Inductive isid := IsSpecial | IsErr (st : N) | IsReg (seq other : N).
(* internalizeStateID / internalizeRegularStateID *)
Definition internalize (sid : stateid) : isid :=
  match sid_other sid with
  | SoAnon => if sid_seq sid =? 0 then IsSpecial else IsErr ERR_BAD_STATEID
  | SoBypass => if sid_seq sid =? max_u32 then IsSpecial else IsErr ERR_BAD_STATEID
  | SoStale => IsErr ERR_STALE_STATEID
  | SoReg o => IsReg (sid_seq sid) o
  end.
Definition internalize_regular (sid : stateid) : isid :=
  match internalize sid with IsSpecial => IsErr ERR_BAD_STATEID | x => x end.

(* getOpenOwnerFileByStateID *)
Definition get_oofs (seq other : N) (allow : bool) (c : cur) s : oofs + N :=
  match find_live_oofs other s with
  | None => inr ERR_BAD_STATEID
  | Some o =>
    match c with
    | CurNone => inr ERR_NOFILEHANDLE
    | _ =>
      if mask_empty (of_sa o) then inr ERR_BAD_STATEID
      else if negb (match c with CurLeaf h => h =? of_handle o | _ => false end) then inr ERR_BAD_STATEID
      else if negb (match find_oos (of_client o, of_owner o) s with Some oo => oo_confirmed oo | None => false end) && negb allow
      then inr ERR_BAD_STATEID
      else let st := compare_state_seq seq (of_seq o) in
           if st =? NFS4_OK then inl o else inr st
    end
  end.
(* getLockOwnerFileByStateID *)
Definition get_lofs (seq other : N) (c : cur) s : lofs + N :=
  match find_lofs other s with
  | None => inr ERR_BAD_STATEID
  | Some l =>
    match c with
    | CurNone => inr ERR_NOFILEHANDLE
    | _ =>
      let h := match find_oofs (lf_oofs l) s with Some o => Some (of_handle o) | None => None end in
      if negb (match c, h with CurLeaf a, Some b => a =? b | _, _ => false end) then inr ERR_BAD_STATEID
      else let st := compare_state_seq seq (lf_seq l) in
           if st =? NFS4_OK then inl l else inr st
    end
  end.
(* isNextStateID(cached, provided) *)
Definition is_next_sid (cseq cother : N) (sid : stateid) : bool :=
  match sid_other sid with SoReg o => (o =? cother) && (cseq =? next_seq (sid_seq sid)) | _ => false end.
(* Replay of an operation whose cached reply carries a state ID: same
   operation type and, for a successful reply, the successor state ID. *)
Definition replay_reply (k : rkind) (sid : option stateid) (c : cached) : opres :=
  let same_kind := match k, ca_kind c with
                   | KOpen, KOpen | KOpenConfirm, KOpenConfirm | KOpenDowngrade, KOpenDowngrade
                   | KClose, KClose | KLock, KLock | KLocku, KLocku => true
                   | _, _ => false end in
  if negb same_kind then ResStatus ERR_BAD_SEQID
  else match sid, ca_res c with
       | Some sd, ResStateid cs co => if is_next_sid cs co sd then ca_res c else ResStatus ERR_BAD_SEQID
       | _, _ => ca_res c
       end.

(* ---- byte-range locks through the pool ---------------------------------- *)
Definition lock_type (t : N) : option LS.ltype :=
  if (t =? 1) || (t =? 3) then Some LS.Shared
  else if (t =? 2) || (t =? 4) then Some LS.Exclusive else None.
(* byteRangeLockToLock4Denied *)
Definition denied_of (c : LS.lock) s : opres :=
  let len := if LS.lend c =? LS.max_u64 then LS.max_u64 else LS.lend c - LS.lstart c in
  let ty := match LS.ltyp c with LS.Shared => 1 | _ => 2 end in
  match find_by (fun l => lo_id l =? LS.lowner c) (st_los s) with
  | Some l => ResDenied (LS.lstart c) len ty (lo_client l) (lo_key l)
  | None => ResDenied (LS.lstart c) len ty 0 0
  end.

(* txLockCommon *)
Definition tx_lock_common (lfother ltype off len : N) s : state * opres :=
  match find_lofs lfother s with
  | None => (panic s, ResStatus ERR_BAD_STATEID)
  | Some lf =>
    match find_oofs (lf_oofs lf) s, find_los (lf_client lf, lf_lokey lf) s with
    | Some o, Some l =>
      match find_pfile (of_handle o) s with
      | None => (panic s, ResStatus ERR_BAD_STATEID)
      | Some p =>
        match LS.offset_length_to_start_end off len with
        | None => (s, ResStatus ERR_INVAL)
        | Some (st, en) =>
          match lock_type ltype with
          | None => (s, ResStatus ERR_INVAL)
          | Some ty =>
            let q := LS.mkLock st en (lo_id l) ty in
            match LS.test (pf_locks p) q with
            | Some c => (s, denied_of c s)
            | None =>
              let r := LS.set (pf_locks p) q in
              let s := upd_pfile (of_handle o) (fun p => mkPfile (pf_handle p) (pf_use p) (LS.set_list r)) s in
              let cnt := (lf_count lf + LS.set_delta r)%Z in
              let s := if LS.set_panic r || (cnt <? 0)%Z then panic s else s in
              let sq := next_seq (lf_seq lf) in
              let s := upd_lofs lfother (fun l => mkLofs (lf_other l) sq (lf_client l) (lf_lokey l) (lf_oofs l) (lf_sa l) cnt) s in
              (s, ResStateid sq lfother)
            end
          end
        end
      end
    | _, _ => (panic s, ResStatus ERR_BAD_STATEID)
    end
  end.

(* ---- operations --------------------------------------------------------- *)
Definition ok_res := ResStatus NFS4_OK.

(* opSetclientid *)
Definition do_setclientid (t : Z) (long cverf : N) s : state * reply :=
  let s := enter t s in
  match find_by (fun c => (cf_long c =? long) && (cf_cverf c =? cverf)) (st_confs s) with
  | Some c => (s, RpOp (ResSetClientId (cf_short c) (cf_sverf c)))
  | None =>
    let '(short, s) := draw s in
    let '(sverf, s) := draw s in
    let s := w_confs s (st_confs s ++ [mkConf short sverf long cverf (st_now s) 0]) in
    let s := w_idle s (st_idle s ++ [short]) in
    (s, RpOp (ResSetClientId short sverf))
  end.

(* opSetclientidConfirm *)
Definition do_setclientid_confirm (t : Z) (short sverf : N) s : state * reply :=
  let s := enter t s in
  match find_by (fun c => (cf_short c =? short) && (cf_sverf c =? sverf)) (st_confs s) with
  | None => (s, RpOp (ResStatus ERR_STALE_CLIENTID))
  | Some c =>
    match confirmed_of (cf_long c) s with
    | Some sh =>
      if sh =? short then (s, RpOp ok_res)
      else
        let s := hold short s in
        match find_conf sh s with
        | Some old =>
          if 0 <? cf_hold old then (release short s, RpOp (ResStatus ERR_DELAY))
          else
            let s := conf_remove sh s in
            let s := match confirmed_of (cf_long c) s with Some _ => panic s | None => s end in
            let s := w_confirmed s (st_confirmed s ++ [(cf_long c, short)]) in
            (release short s, RpOp ok_res)
        | None => (panic s, RpOp ok_res)
        end
    | None =>
      let s := hold short s in
      let s := w_confirmed s (st_confirmed s ++ [(cf_long c, short)]) in
      (release short s, RpOp ok_res)
    end
  end.

(* opRenew *)
Definition do_renew (t : Z) (short : N) s : state * reply :=
  let s := enter t s in
  if confirmed_client short s then (release short (hold short s), RpOp ok_res)
  else (s, RpOp (ResStatus ERR_STALE_CLIENTID)).

(* txOpen up to the point where the lock is dropped. inl = finished with
   this reply; inr = parked with this pending record. *)
Definition tx_open_start (a : open_args) (ck : N * N) (c : cur) s : opres + pending :=
  match access_to_mask (oa_access a) with
  | None => inl (ResStatus ERR_INVAL)
  | Some acc =>
    if oa_deny a =? 0 then
      match oa_claim a with
      | ClNull nm =>
        match c with
        | CurNone => inl (ResStatus ERR_NOFILEHANDLE)
        | CurLeaf _ => inl (ResStatus ERR_NOTDIR)
        | CurRoot =>
          match nm with
          | NmEmpty => inl (ResStatus ERR_INVAL)
          | NmBad => inl (ResStatus ERR_BADNAME)
          | NmOk _ => inr (POpen (fst ck) (snd ck) (oa_seq a) acc None (st_ll s))
          end
        end
      | ClPrev deleg =>
        match c with
        | CurNone => inl (ResStatus ERR_NOFILEHANDLE)
        | CurRoot => inl (ResStatus ERR_ISDIR)
        | CurLeaf h =>
          match find_by (fun o => oofs_of_owner ck o && (of_handle o =? h)) (st_oofs s) with
          | None => inl (ResStatus ERR_RECLAIM_BAD)
          | Some o =>
            if negb (deleg =? 0) then inl (ResStatus ERR_RECLAIM_BAD)
            else match oa_how a with
                 | HowGuarded | HowExclusive => inl (ResStatus ERR_EXIST)
                 | _ => inr (POpen (fst ck) (snd ck) (oa_seq a) acc (Some (of_other o)) (st_ll s))
                 end
          end
        end
      | ClDelegCur => inl (ResStatus ERR_RECLAIM_BAD)
      | ClDelegPrev => inl (ResStatus ERR_NOTSUPP)
      end
    else if oa_deny a <=? 3 then inl (ResStatus ERR_SHARE_DENIED)
    else inl (ResStatus ERR_INVAL)
  end.

(* opOpen, first critical section. Leaves scheduled for closing by enter() are
   closed by enter() itself; those scheduled afterwards (reinitialisation of an
   unconfirmed owner) wait in the operation's leavesToClose until it returns. *)
Definition do_open_body (g : N) (c : cur) (a : open_args) s : state * reply :=
  if negb (confirmed_client (oa_client a) s) then (s, RpOp (ResStatus ERR_STALE_CLIENTID))
  else
    let ck := (oa_client a, oa_owner a) in
    let s := match find_oos ck s with
             | Some _ => s
             | None => w_oos s (st_oos s ++ [mkOos (fst ck) (snd ck) false 0 None false 0])
             end in
    match find_oos ck s with
    | None => (panic s, RpPanic)
    | Some o =>
      if oo_intx o then (s, RpBlocked)
      else
        let '(s, r) := oos_start_tx ck (oa_seq a) PolReinit s in
        match r with
        | TxReplay ca => (s, RpOp (replay_reply KOpen None ca))
        | TxFail st => (s, RpOp (ResStatus st))
        | TxStarted =>
          (* the PANIC branch of CLAIM_PREVIOUS on an unconfirmed owner is
             unreachable: an unconfirmed owner was just reinitialised *)
          match tx_open_start a ck c s with
          | inl res => (oos_complete_tx ck (oa_seq a) (mkCached KOpen res None) s, RpOp res)
          | inr p => (w_ll (w_pending s (st_pending s ++ [(g, p)])) [], RpParkedOpen)
          end
        end
    end.
Definition do_open (g : N) (t : Z) (c : cur) (a : open_args) s : state * reply :=
  let s := enter t s in
  let ll0 := st_ll s in
  let '(s, rp) := do_open_body g c a (w_ll s []) in
  (w_ll s (st_ll s ++ ll0), rp).

(* opOpen, second critical section: VirtualOpenChild / VirtualOpenSelf returned *)
Definition do_open_ret (g : N) (t : Z) (res : oresult) s : state * reply :=
  match find_by (fun p => fst p =? g) (st_pending s) with
  | Some (_, POpen cl key seq acc prev ll) =>
    let ck := (cl, key) in
    let s := w_pending s (del_by (fun p => fst p =? g) (st_pending s)) in
    let s := w_ll s (ll ++ st_ll s) in
    let s := enter t s in
    match res with
    | OrErr st =>
      let r := ResStatus st in
      (oos_complete_tx ck seq (mkCached KOpen r None) s, RpOp r)
    | OrOk h =>
      let confirmed := match find_oos ck s with Some o => oo_confirmed o | None => false end in
      match prev with
      | Some other =>
        (* CLAIM_PREVIOUS: VirtualOpenSelf was called on the leaf of the open-owner file *)
        let s := match find_oofs other s with
                 | Some o => oofs_upgrade other acc (w_ll s (mkCall (of_handle o) true acc :: st_ll s))
                 | None => panic s
                 end in
        let sq := match find_oofs other s with Some o => of_seq o | None => 0 end in
        let r := ResOpen sq other false in
        (oos_complete_tx ck seq (mkCached KOpen r None) s, RpOp r)
      | None =>
        let s := w_ll s (mkCall h true acc :: st_ll s) in
        match find_by (fun o => oofs_of_owner ck o && (of_handle o =? h)) (st_oofs s) with
        | Some o =>
          let s := oofs_upgrade (of_other o) acc s in
          let r := ResOpen (next_seq (of_seq o)) (of_other o) (negb confirmed) in
          (oos_complete_tx ck seq (mkCached KOpen r None) s, RpOp r)
        | None =>
          let s := pool_open h s in
          let '(other, s) := draw s in
          let s := w_oofs s (st_oofs s ++ [mkOofs other 1 cl key h acc (if m_r acc then 1 else 0) (if m_w acc then 1 else 0) true]) in
          let r := ResOpen 1 other (negb confirmed) in
          (oos_complete_tx ck seq (mkCached KOpen r None) s, RpOp r)
        end
      end
    end
  | _ => (s, RpOp (ResStatus ERR_RESOURCE))   (* not an enabled event *)
  end.

(* Common skeleton of OPEN_CONFIRM, OPEN_DOWNGRADE and CLOSE. [body] runs
   inside the transaction and yields the reply and the closed file. *)
Definition owner_op (t : Z) (enter_first : bool) (k : rkind) (sid : stateid) (seq : N) (pol : policy)
    (body : state -> state * opres * option N) s : state * reply :=
  let s := if enter_first then enter t s else s in
  match internalize_regular sid with
  | IsErr st => (s, RpOp (ResStatus st))
  | IsSpecial => (s, RpOp (ResStatus ERR_BAD_STATEID))
  | IsReg _ other =>
    let s := if enter_first then s else enter t s in
    match find_live_oofs other s with
    | None => (s, RpOp (ResStatus ERR_BAD_STATEID))
    | Some o =>
      let ck := (of_client o, of_owner o) in
      if match find_oos ck s with Some oo => oo_intx oo | None => false end then (s, RpBlocked)
      else
        let '(s, r) := oos_start_tx ck seq pol s in
        match r with
        | TxReplay ca => (s, RpOp (replay_reply k (match k with KLock => None | _ => Some sid end) ca))
        | TxFail st => (s, RpOp (ResStatus st))
        | TxStarted =>
          let '(s, res, closed) := body s in
          (oos_complete_tx ck seq (mkCached k res closed) s, RpOp res)
        end
    end
  end.

(* txOpenConfirm *)
Definition tx_open_confirm (sid : stateid) (c : cur) s : state * opres * option N :=
  match internalize_regular sid with
  | IsReg sq other =>
    match get_oofs sq other true c s with
    | inr st => (s, ResStatus st, None)
    | inl o =>
      let s := upd_oos (of_client o, of_owner o) (fun oo => mkOos (oo_client oo) (oo_key oo) true (oo_lastseq oo) (oo_last oo) (oo_intx oo) (oo_lastused oo)) s in
      let s := oofs_bump_seq other s in
      (s, ResStateid (next_seq (of_seq o)) other, None)
    end
  | _ => (s, ResStatus ERR_BAD_STATEID, None)
  end.
(* txOpenDowngrade *)
Definition tx_open_downgrade (sid : stateid) (access deny : N) (c : cur) s : state * opres * option N :=
  match internalize_regular sid with
  | IsReg sq other =>
    match get_oofs sq other false c s with
    | inr st => (s, ResStatus st, None)
    | inl o =>
      match access_to_mask access with
      | None => (s, ResStatus ERR_INVAL, None)
      | Some acc =>
        if negb (mask_subset acc (of_sa o)) || negb (deny =? 0) then (s, ResStatus ERR_INVAL, None)
        else
          let s := oofs_release other (mask_diff (of_sa o) acc) s in
          let s := oofs_set_sa other acc s in
          let s := oofs_bump_seq other s in
          (s, ResStateid (next_seq (of_seq o)) other, None)
      end
    end
  | _ => (s, ResStatus ERR_BAD_STATEID, None)
  end.
(* txClose *)
Definition tx_close (sid : stateid) (c : cur) s : state * opres * option N :=
  match internalize_regular sid with
  | IsReg sq other =>
    match get_oofs sq other false c s with
    | inr st => (s, ResStatus st, None)
    | inl o =>
      let s := oofs_remove_start other s in
      let s := oofs_bump_seq other s in
      (s, ResStateid (next_seq (of_seq o)) other, Some other)
    end
  | _ => (s, ResStatus ERR_BAD_STATEID, None)
  end.

(* txLockInitial *)
Definition tx_lock_initial (ltype off len : N) (osid : stateid) (lseq lclient lowner : N) (c : cur) s
    : state * opres * option N :=
  match internalize_regular osid with
  | IsReg sq other =>
    match get_oofs sq other false c s with
    | inr st => (s, ResStatus st, None)
    | inl o =>
      if negb (lclient =? of_client o) then (s, ResStatus ERR_INVAL, None)
      else
        let lk := (of_client o, lowner) in
        let '(s, initial, dup) :=
          match find_los lk s with
          | None => (w_next_id (w_los s (st_los s ++ [mkLos (fst lk) (snd lk) (st_next_id s) 0 None])) (st_next_id s + 1), true, false)
          | Some _ => (s, false, existsb (fun l => (lf_oofs l =? other) && lofs_of_los lk l) (st_lofs s))
          end in
        if dup then (s, ResStatus ERR_BAD_SEQID, None)
        else
          let '(s, r) := los_start_tx lk lseq initial s in
          match r with
          | TxReplay ca => (s, replay_reply KLock None ca, None)
          | TxFail st => (if initial then panic s else s, ResStatus st, None)
          | TxStarted =>
            let s := oofs_clone other (of_sa o) s in
            let '(lfother, s) := draw s in
            let s := w_lofs s (st_lofs s ++ [mkLofs lfother 0 (fst lk) (snd lk) other (of_sa o) 0]) in
            let '(s, res) := tx_lock_common lfother ltype off len s in
            let s := los_complete_tx lk lseq (mkCached KLock res None) s in
            if status_of res =? NFS4_OK then (s, res, None)
            else
              (* lofs.remove(p, nil): a close scheduled here would dereference nil *)
              let n := List.length (st_ll s) in
              let s := lofs_remove lfother s in
              (if Nat.eqb (List.length (st_ll s)) n then s else panic s, res, None)
          end
    end
  | _ => (s, ResStatus ERR_BAD_STATEID, None)
  end.

(* Common skeleton of LOCK (existing lock-owner) and LOCKU *)
Definition lock_owner_op (t : Z) (k : rkind) (lsid : stateid) (seq : N)
    (body : N -> N -> state -> state * opres) s : state * reply :=
  let s := enter t s in
  match internalize_regular lsid with
  | IsReg sq other =>
    match find_lofs other s with
    | None => (s, RpOp (ResStatus ERR_BAD_STATEID))
    | Some lf =>
      let lk := (lf_client lf, lf_lokey lf) in
      let '(s, r) := los_start_tx lk seq false s in
      match r with
      | TxReplay ca => (s, RpOp (replay_reply k (Some lsid) ca))
      | TxFail st => (s, RpOp (ResStatus st))
      | TxStarted =>
        let '(s, res) := body sq other s in
        (los_complete_tx lk seq (mkCached k res None) s, RpOp res)
      end
    end
  | IsErr st => (s, RpOp (ResStatus st))
  | IsSpecial => (s, RpOp (ResStatus ERR_BAD_STATEID))
  end.
(* txLockSuccessive *)
Definition tx_lock_successive (ltype off len : N) (c : cur) (sq other : N) s : state * opres :=
  match get_lofs sq other c s with
  | inr st => (s, ResStatus st)
  | inl _ => tx_lock_common other ltype off len s
  end.
(* txLocku *)
Definition tx_locku (off len : N) (c : cur) (sq other : N) s : state * opres :=
  match get_lofs sq other c s with
  | inr st => (s, ResStatus st)
  | inl lf =>
    match find_oofs (lf_oofs lf) s, find_los (lf_client lf, lf_lokey lf) s with
    | Some o, Some l =>
      match find_pfile (of_handle o) s with
      | None => (panic s, ResStatus ERR_BAD_STATEID)
      | Some p =>
        match LS.offset_length_to_start_end off len with
        | None => (s, ResStatus ERR_INVAL)
        | Some (st, en) =>
          let r := LS.set (pf_locks p) (LS.mkLock st en (lo_id l) LS.Unlocked) in
          let s := upd_pfile (of_handle o) (fun p => mkPfile (pf_handle p) (pf_use p) (LS.set_list r)) s in
          let cnt := (lf_count lf + LS.set_delta r)%Z in
          let s := if LS.set_panic r || (cnt <? 0)%Z then panic s else s in
          let nsq := next_seq (lf_seq lf) in
          let s := upd_lofs other (fun l => mkLofs (lf_other l) nsq (lf_client l) (lf_lokey l) (lf_oofs l) (lf_sa l) cnt) s in
          (s, ResStateid nsq other)
        end
      end
    | _, _ => (panic s, ResStatus ERR_BAD_STATEID)
    end
  end.

(* opLockt *)
Definition do_lockt (t : Z) (c : cur) (ltype off len client owner : N) s : state * reply :=
  match c with
  | CurNone => (s, RpOp (ResStatus ERR_NOFILEHANDLE))
  | CurRoot => (s, RpOp (ResStatus ERR_ISDIR))
  | CurLeaf h =>
    let s := enter t s in
    if negb (confirmed_client client s) then (s, RpOp (ResStatus ERR_STALE_CLIENTID))
    else
      let s := hold client s in
      let id := match find_los (client, owner) s with Some l => lo_id l | None => 0 end in
      let res :=
        match LS.offset_length_to_start_end off len with
        | None => ResStatus ERR_INVAL
        | Some (st, en) =>
          match lock_type ltype with
          | None => ResStatus ERR_INVAL
          | Some ty =>
            match find_pfile h s with
            | None => ok_res
            | Some p => match LS.test (pf_locks p) (LS.mkLock st en id ty) with
                        | Some cl => denied_of cl s
                        | None => ok_res
                        end
            end
          end
        end in
      (release client s, RpOp res)
  end.

(* opReleaseLockowner *)
Definition do_release_lockowner (t : Z) (client owner : N) s : state * reply :=
  let s := enter t s in
  if negb (confirmed_client client s) then (s, RpOp (ResStatus ERR_STALE_CLIENTID))
  else
    let s := hold client s in
    let lk := (client, owner) in
    match find_los lk s with
    | None => (release client s, RpOp ok_res)
    | Some _ =>
      let files := filter (lofs_of_los lk) (st_lofs s) in
      if existsb (fun l => (0 <? lf_count l)%Z) files then (release client s, RpOp (ResStatus ERR_LOCKS_HELD))
      else
        let s := fold_left (fun s o => lofs_remove o s) (map lf_other files) s in
        let s := match find_los lk s with Some _ => panic s | None => s end in
        (release client s, RpOp ok_res)
    end.

(* READ / WRITE / SETATTR *)
Definition io_access (k : iokind) : mask :=
  match k with IoRead => mkMask true false | _ => mkMask false true end.
Definition do_io (g : N) (t : Z) (c : cur) (k : iokind) (sid : stateid) (openerr ioerr : N) s : state * reply :=
  match internalize sid with
  | IsErr st => (s, RpOp (ResStatus st))
  | IsSpecial =>
    match k with
    | IoSetattr =>
      match c with
      | CurNone => (s, RpOp (ResStatus ERR_NOFILEHANDLE))
      | _ => (s, RpOp (ResStatus ioerr))
      end
    | _ =>
      match c with
      | CurNone => (s, RpOp (ResStatus ERR_NOFILEHANDLE))
      | CurRoot => (s, RpOp (ResStatus ERR_ISDIR))
      | CurLeaf h =>
        if openerr =? NFS4_OK then
          (w_ll s (mkCall h false (io_access k) :: mkCall h true (io_access k) :: st_ll s), RpOp (ResStatus ioerr))
        else (s, RpOp (ResStatus openerr))
      end
    end
  | IsReg sq other =>
    let acc := io_access k in
    let s := enter t s in
    let found : (N * N) + N :=      (* open-owner file 'other' and client, or a status *)
      match get_oofs sq other false c s with
      | inl o => if mask_subset acc (of_sa o) then inl (of_other o, of_client o) else inr ERR_OPENMODE
      | inr st =>
        if st =? ERR_BAD_STATEID then
          match get_lofs sq other c s with
          | inr st2 => inr st2
          | inl lf =>
            if mask_subset acc (lf_sa lf)
            then inl (lf_oofs lf, match find_oofs (lf_oofs lf) s with Some o => of_client o | None => 0 end)
            else inr ERR_OPENMODE
          end
        else inr st
      end in
    match found with
    | inr st => (s, RpOp (ResStatus st))
    | inl (oother, client) =>
      let s := hold client s in
      let s := oofs_clone oother acc s in
      (w_pending s (st_pending s ++ [(g, PIo oother client acc)]), RpParkedIo)
    end
  end.
Definition do_io_ret (g : N) (t : Z) (st : N) s : state * reply :=
  match find_by (fun p => fst p =? g) (st_pending s) with
  | Some (_, PIo other client cloned) =>
    let s := enter t s in
    let s := w_pending s (del_by (fun p => fst p =? g) (st_pending s)) in
    let s := oofs_release other cloned s in
    (release client s, RpOp (ResStatus st))
  | _ => (s, RpOp (ResStatus ERR_RESOURCE))
  end.

(* ---- one event ----------------------------------------------------------- *)
Definition resolve_fh (fh : curfh) s : cur + N :=
  match fh with
  | FhNone => inl CurNone
  | FhRoot => inl CurRoot
  | FhFile h linked => if linked || match find_pfile h s with Some _ => true | None => false end
                       then inl (CurLeaf h) else inr ERR_STALE
  end.

Definition do_req (g : N) (t : Z) (fh : curfh) (r : req) s : state * reply :=
  match resolve_fh fh s with
  | inr st => (s, RpPutfhFail st)
  | inl c =>
    match r with
    | RSetClientId long cverf => do_setclientid t long cverf s
    | RSetClientIdConfirm short sverf => do_setclientid_confirm t short sverf s
    | RRenew short => do_renew t short s
    | ROpen a => do_open g t c a s
    | ROpenConfirm sid seq => owner_op t false KOpenConfirm sid seq PolAllow (tx_open_confirm sid c) s
    | ROpenDowngrade sid seq access deny => owner_op t false KOpenDowngrade sid seq PolDeny (tx_open_downgrade sid access deny c) s
    | RClose sid seq => owner_op t false KClose sid seq PolDeny (tx_close sid c) s
    | RLockNew ltype off len osid oseq lseq lclient lowner =>
        owner_op t true KLock osid oseq PolDeny (tx_lock_initial ltype off len osid lseq lclient lowner c) s
    | RLockOld ltype off len lsid lseq => lock_owner_op t KLock lsid lseq (tx_lock_successive ltype off len c) s
    | RLockT ltype off len client owner => do_lockt t c ltype off len client owner s
    | RLockU ltype seq lsid off len => lock_owner_op t KLocku lsid seq (tx_locku off len c) s
    | RReleaseLockOwner client owner => do_release_lockowner t client owner s
    | RIo k sid openerr ioerr => do_io g t c k sid openerr ioerr s
    | RResolve => (s, RpOp ok_res)
    end
  end.

Record output := mkOut { o_reply : reply; o_calls : list leafcall }.

Definition step (s : state) (e : event) : state * output :=
  let '(s1, rp) :=
    match e with
    | EReq g t fh r =>
        (* a goroutine has one request outstanding: not enabled while g is parked *)
        if existsb (fun p => fst p =? g) (st_pending s) then (s, RpOp (ResStatus ERR_RESOURCE))
        else do_req g t fh r s
    | EOpenRet g t res => do_open_ret g t res s
    | EIoRet g t st => do_io_ret g t st s
    end in
  (w_ll s1 [], mkOut (if st_panic s1 then RpPanic else rp) (rev (st_ll s1))).

Fixpoint run (s : state) (evs : list event) : state * list output :=
  match evs with
  | [] => (s, [])
  | e :: tl => let '(s1, o) := step s e in
               let '(s2, os) := run s1 tl in (s2, o :: os)
  end.
Definition state_after (evs : list event) : state := fst (run init evs).
