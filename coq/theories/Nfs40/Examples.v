(* Non-vacuity: histories that reach the states the theorems speak about. *)
From VF Require Import Nfs40.Model Nfs40.Dump Nfs40.Spec Nfs40.ProofsInv Nfs40.ProofsInv2.
Open Scope N_scope.

Definition sidr (seq other : N) := mkSid seq (SoReg other).

(* register, open n0 read/write, confirm, lock [0,4) exclusively, start a READ
   with the lock state ID and leave it parked, CLOSE the file, let the READ return *)
Definition ev_scenario : list event :=
  [ EReq 1 1000 FhNone (RSetClientId 1 1);
    EReq 2 1000 FhNone (RSetClientIdConfirm 1000 1001);
    EReq 3 1000 FhRoot (ROpen (mkOpenArgs 1000 0 1 3 0 HowUnchecked (ClNull (NmOk 0))));
    EOpenRet 3 1000 (OrOk 1);
    EReq 4 1000 (FhFile 1 true) (ROpenConfirm (sidr 1 1002) 2);
    EReq 5 1000 (FhFile 1 true) (RLockNew 2 0 4 (sidr 2 1002) 3 1 1000 7);
    EReq 6 1001 (FhFile 1 true) (RIo IoRead (sidr 1 1003) 0 0);
    EReq 7 1002 (FhFile 1 true) (RClose (sidr 2 1002) 4) ].

Definition s_scn := state_after ev_scenario.

(* after CLOSE the read share is still held by the in-flight READ: the leaf is
   closed for writing only, the closed state ID stays resolvable *)
Example scenario_after_close :
  snd (run init ev_scenario)
  = [ mkOut (RpOp (ResSetClientId 1000 1001)) [];
      mkOut (RpOp ok_res) [];
      mkOut RpParkedOpen [];
      mkOut (RpOp (ResOpen 1 1002 true)) [mkCall 1 true (mkMask true true)];
      mkOut (RpOp (ResStateid 2 1002)) [];
      mkOut (RpOp (ResStateid 1 1003)) [];
      mkOut RpParkedIo [];
      mkOut (RpOp (ResStateid 3 1002)) [mkCall 1 false (mkMask false true)] ]
  /\ map (fun o => (of_other o, of_sa o, of_rd o, of_wr o, of_live o)) (st_oofs s_scn) = [(1002, mask_none, 1, 0, true)]
  /\ st_lofs s_scn = [] /\ st_los s_scn = []
  /\ map (fun p => (pf_handle p, pf_use p, pf_locks p)) (st_pool s_scn) = [(1, 1, [])]
  /\ holders s_scn 1 true = 1%Z /\ holders s_scn 1 false = 0%Z.
Proof. vm_compute. repeat split; reflexivity. Qed.

(* a replay of the CLOSE is answered from the cache; the READ returns and the
   leaf is closed; after the lease has lapsed nothing is left *)
Definition ev_tail : list event :=
  [ EReq 8 1002 (FhFile 1 true) (RClose (sidr 2 1002) 4);
    EIoRet 6 1003 0;
    EReq 9 2000 FhNone (RRenew 0) ].

Example scenario_end :
  snd (run s_scn ev_tail)
  = [ mkOut (RpOp (ResStateid 3 1002)) [];
      mkOut (RpOp ok_res) [mkCall 1 false (mkMask true false)];
      mkOut (RpOp (ResStatus ERR_STALE_CLIENTID)) [] ]
  /\ dump_is_empty (dump_of (fst (run s_scn ev_tail))) = true
  /\ st_oofs (fst (run s_scn ev_tail)) = [].
Proof. vm_compute. repeat split; reflexivity. Qed.

(* the monitor accepts the model's own trace of the scenario *)
Example scenario_trace_ok : trace_ok (model_trace init (ev_scenario ++ ev_tail)) = true.
Proof. vm_compute. reflexivity. Qed.

(* ---- the lease rule of the monitor (Spec.lease_step) --------------------------- *)
(* a client that after OPEN + OPEN_CONFIRM is heard of only through READ /
   WRITE / SETATTR with its open state ID, 60 % of a lease period apart, one
   READ staying parked in the leaf while the clock passes the lease *)
Definition ev_lease_io : list event :=
  [ EReq 1 1000 FhNone (RSetClientId 1 1);
    EReq 2 1000 FhNone (RSetClientIdConfirm 1000 1001);
    EReq 3 1000 FhRoot (ROpen (mkOpenArgs 1000 0 1 3 0 HowUnchecked (ClNull (NmOk 0))));
    EOpenRet 3 1000 (OrOk 1);
    EReq 4 1000 (FhFile 1 true) (ROpenConfirm (sidr 1 1002) 2);
    EReq 5 1060 (FhFile 1 true) (RIo IoRead (sidr 2 1002) 0 0);  EIoRet 5 1060 0;
    EReq 6 1120 (FhFile 1 true) (RIo IoWrite (sidr 2 1002) 0 0); EIoRet 6 1120 0;
    EReq 7 1180 (FhFile 1 true) (RIo IoSetattr (sidr 2 1002) 0 0); EIoRet 7 1180 0 ].
Definition ev_lease_parked : list event :=
  [ EReq 8 1240 (FhFile 1 true) (RIo IoRead (sidr 2 1002) 0 0) ].
Definition ev_lease_tail : list event :=
  [ EReq 9 1300 FhNone (RRenew 0);
    EReq 10 1360 FhNone (RRenew 0);
    EIoRet 8 1360 0;
    EReq 11 1420 (FhFile 1 true) (RIo IoRead (sidr 2 1002) 0 0); EIoRet 11 1420 0 ].
Definition ev_lease_all := ev_lease_io ++ ev_lease_parked ++ ev_lease_tail.

(* the client is still registered, its file open and its state ID honoured 4.2
   lease periods after the last request that was not I/O; the lease rule and
   the whole monitor accept the model's trace; once the client falls silent
   for a lease period everything goes *)
Example lease_io_keeps_client :
  map cf_short (st_confs (state_after ev_lease_all)) = [1000]
  /\ map o_reply (snd (run (state_after ev_lease_all) [EReq 12 1500 (FhFile 1 true) (RIo IoRead (sidr 2 1002) 0 0)])) = [RpParkedIo]
  /\ lease_trace_ok (model_trace init (ev_lease_all ++ [EReq 12 1600 FhNone (RRenew 0)])) = true
  /\ trace_ok (model_trace init (ev_lease_all ++ [EReq 12 1600 FhNone (RRenew 0)])) = true
  /\ dump_is_empty (dump_of (state_after (ev_lease_all ++ [EReq 12 1600 FhNone (RRenew 0)]))) = true.
Proof. vm_compute. repeat split; reflexivity. Qed.

(* what the rule rejects: the same client expired by the next READ although it
   used its state ID 60 time units (lease = 100) earlier; and expired by a
   RENEW of somebody else while its READ is parked in the leaf *)
Example lease_rule_rejects_early_expiry :
  lease_run lmon_init (empty_dump 0)
    (model_trace init ev_lease_io
     ++ [mkObs (EReq 8 1240 (FhFile 1 true) (RIo IoRead (sidr 2 1002) 0 0)) (RpOp (ResStatus ERR_BAD_STATEID)) 0
               [mkCall 1 false (mkMask true true)] (empty_dump 1240)])
  = "C18:client-expired-within-lease"%string
  /\ lease_run lmon_init (empty_dump 0)
    (model_trace init (ev_lease_io ++ ev_lease_parked)
     ++ [mkObs (EReq 9 1300 FhNone (RRenew 0)) (RpOp (ResStatus ERR_STALE_CLIENTID)) 0 [] (empty_dump 1300)])
  = "C18:client-expired-during-io"%string
  /\ mon_run mon_init
    (model_trace init ev_lease_io
     ++ [mkObs (EReq 8 1240 (FhFile 1 true) (RIo IoRead (sidr 2 1002) 0 0)) (RpOp (ResStatus ERR_BAD_STATEID)) 0
               [mkCall 1 false (mkMask true true)] (empty_dump 1240)])
  = "C18:client-expired-within-lease"%string.
Proof. vm_compute. repeat split; reflexivity. Qed.
