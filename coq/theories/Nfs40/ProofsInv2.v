(* C18 for the NFSv4.0 model, part 2: the remaining operations, one event,
   all histories. *)
From VF Require Import Nfs40.Model Nfs40.ProofsInv.
From Coq Require Import Lia ZifyBool ZifyN ZifyNat.
Open Scope N_scope.

Lemma Phi_w_ll : forall s ll h rd, Phi (w_ll s ll) h rd = (Phi s h rd + calls_net h rd (st_ll s) - calls_net h rd ll)%Z.
Proof. intros. unfold Phi. simpl. lia. Qed.

Lemma Inv_w_ll : forall s ll, Inv s -> Inv (w_ll s ll).
Proof. intros s ll [HK HU HF]. constructor; [exact HK|exact HU|exact HF]. Qed.

Lemma Inv_of_w_ll : forall s ll, Inv (w_ll s ll) -> Inv s.
Proof. intros s ll [HK HU HF]. constructor; [exact HK|exact HU|exact HF]. Qed.

Lemma do_open_good : forall g t c a s, fresh g s -> good s (fst (do_open g t c a s)).
Proof.
  intros g t c a s Hfr. unfold do_open.
  set (s1 := enter t s).
  assert (G1 : good s s1) by (unfold s1; good_tac).
  assert (Hfr1 : fresh g (w_ll s1 [])).
  { apply (fresh_eq g s); [|exact Hfr]. simpl. unfold s1. apply psame_enter. }
  pose proof (do_open_body_good g c a (w_ll s1 []) (w_ll s1 []) Hfr1 (good_refl _)) as Gb.
  destruct (do_open_body g c a (w_ll s1 [])) as [s2 rp]. cbn [fst] in *.
  intros H0. destruct (G1 H0) as [I1 P1].
  destruct (Gb (Inv_w_ll s1 [] I1)) as [I2 P2].
  split; [apply Inv_w_ll; exact I2|].
  intros h rd. rewrite Phi_w_ll, P2, Phi_w_ll, calls_net_app. simpl calls_net. rewrite P1. lia.
Qed.

Lemma find_live_In2 : forall (ck : N * N) h s o,
  find_by (fun o => oofs_of_owner ck o && (of_handle o =? h)) (st_oofs s) = Some o -> In o (st_oofs s) /\ of_handle o = h.
Proof.
  intros ck h s o H. apply find_by_In in H. destruct H as [Hin Hk]. apply andb_prop in Hk. destruct Hk as [_ Hk].
  apply N.eqb_eq in Hk. tauto.
Qed.

Lemma do_open_ret_good : forall g t res s, good s (fst (do_open_ret g t res s)).
Proof.
  intros g t res s. unfold do_open_ret.
  destruct (find_by (fun p => fst p =? g) (st_pending s)) as [[g' p]|] eqn:Ef; [|apply good_refl].
  destruct p as [cl key seq acc prev ll|]; [|apply good_refl].
  apply find_pending_In in Ef. destruct Ef as [Hin Hg]. simpl in Hg. subst g'.
  cbv zeta.
  set (s0 := w_pending s (del_by (fun p => fst p =? g) (st_pending s))).
  set (s1 := w_ll s0 (ll ++ st_ll s0)).
  assert (G1 : good s s1) by (intros H; apply (del_popen_ok s g cl key seq acc prev ll H Hin)).
  assert (G2 : good s (enter t s1)) by good_tac.
  set (s2 := enter t s1) in *.
  destruct res as [st|h]; cbn [fst].
  - eapply good_view; [exact G2|apply view_oos_complete_tx].
  - destruct prev as [other|].
    + (* CLAIM_PREVIOUS *)
      cbn [fst].
      match goal with |- good _ (oos_complete_tx _ _ _ ?x) => assert (G3 : good s x) end.
      { destruct (find_oofs other s2) as [o|] eqn:Eo; [|eapply good_view; [exact G2|apply view_panic]].
        apply find_by_In in Eo. destruct Eo as [Ho Hk]. apply N.eqb_eq in Hk.
        intros H0. destruct (G2 H0) as [I2 P2]. destruct (upgrade_ok s2 other o acc I2 Ho Hk) as [I3 P3].
        split; [exact I3|]. intros. rewrite P3. apply P2. }
      eapply good_view; [exact G3|apply view_oos_complete_tx].
    + destruct (find_by _ (st_oofs (w_ll s2 _))) as [o|] eqn:Eo.
      * change (st_oofs (w_ll s2 (mkCall h true acc :: st_ll s2))) with (st_oofs s2) in Eo.
        apply find_live_In2 in Eo. destruct Eo as [Ho Hh]. subst h. cbn [fst].
        eapply good_view; [|apply view_oos_complete_tx].
        intros H0. destruct (G2 H0) as [I2 P2]. destruct (upgrade_ok s2 (of_other o) o acc I2 Ho eq_refl) as [I3 P3].
        split; [exact I3|]. intros. rewrite P3. apply P2.
      * unfold draw. cbn [fst snd]. eapply good_view; [|apply view_oos_complete_tx].
        intros H0. destruct (G2 H0) as [I2 P2]. destruct (new_oofs_ok s2 cl key h acc I2) as [I3 P3].
        unfold draw in I3, P3. cbn [fst snd] in I3, P3.
        split; [exact I3|]. intros. rewrite P3. apply P2.
Qed.

(* ---- READ / WRITE / SETATTR --------------------------------------------------------------------------- *)
Lemma pending_oofs_clone : forall other m s, st_pending (oofs_clone other m s) = st_pending s.
Proof. intros. apply psame_oofs_clone. Qed.

Lemma clone_add_pio_good : forall s g other client m,
  Inv s -> fresh g s -> other < st_rng s ->
  (forall o rd, In o (st_oofs s) -> of_other o = other -> bit rd m = true -> 0 < cnt rd o) ->
  let s1 := oofs_clone other m s in
  let s2 := w_pending s1 (st_pending s1 ++ [(g, PIo other client m)]) in
  Inv s2 /\ forall h rd, Phi s2 h rd = Phi s h rd.
Proof.
  intros s g other client m HI Hfr Hlt Hpos s1 s2.
  destruct (find_oofs other s) as [o|] eqn:Ef.
  - apply find_by_In in Ef. destruct Ef as [Hin Hk]. apply N.eqb_eq in Hk.
    destruct (oofs_clone_ok other m s o HI Hin Hk) as (K1&U1&F1&P1).
    { intros rd Hb. apply (Hpos o rd Hin Hk Hb). }
    fold s1 in K1, U1, F1, P1.
    destruct (add_pio_ok s1 g other client m K1 U1 F1) as [I2 P2].
    + unfold s1. rewrite pending_oofs_clone. exact Hfr.
    + unfold s1. rewrite rng_oofs_clone. exact Hlt.
    + split; [exact I2|]. intros. rewrite P2. apply P1.
  - assert (Es1 : s1 = panic s) by (unfold s1, oofs_clone; rewrite Ef; reflexivity).
    pose proof (find_by_None _ _ Ef) as Hn.
    assert (I1 : Inv s1) by (rewrite Es1; eapply view_eq_Inv; [apply view_panic|exact HI]).
    destruct I1 as [K1 U1 F1].
    destruct (add_pio_ok s1 g other client m) as [I2 P2]; try assumption.
    + intros o rd Hin. specialize (K1 o rd Hin). rewrite Es1 in Hin. specialize (Hn o Hin). simpl in Hn.
      rewrite Hn. destruct (of_other o =? 0); lia.
    + rewrite Es1. exact Hfr.
    + rewrite Es1. exact Hlt.
    + split; [exact I2|]. intros. rewrite P2. rewrite Es1. reflexivity.
Qed.

Lemma cntb_pos_In : forall {A} (p : A -> bool) l x, In x l -> p x = true -> (1 <= cntb p l)%Z.
Proof.
  intros A p l x. induction l as [|y tl IH]; intros Hin Hp; [contradiction|].
  rewrite cntb_cons. pose proof (cntb_nonneg p tl). destruct Hin as [-> | Hin].
  - rewrite Hp. lia.
  - specialize (IH Hin Hp). destruct (p y); lia.
Qed.

Lemma mask_subset_bit : forall a b rd, mask_subset a b = true -> bit rd a = true -> bit rd b = true.
Proof.
  intros [ar aw] [br bw] rd. unfold mask_subset, mask_empty, mask_diff.
  destruct rd, ar, aw, br, bw; simpl; intros; try discriminate; reflexivity.
Qed.

Lemma get_lofs_In : forall sq other c s lf, get_lofs sq other c s = inl lf -> In lf (st_lofs s) /\ lf_other lf = other.
Proof.
  intros sq other c s lf H. unfold get_lofs in H. destruct (find_lofs other s) as [l|] eqn:E; [|discriminate].
  apply find_by_In in E. destruct E as [Hin Hk]. apply N.eqb_eq in Hk.
  destruct c; try discriminate;
  repeat match type of H with (if ?b then _ else _) = _ => destruct b; try discriminate end;
  inversion H; subst; tauto.
Qed.

Lemma do_io_good : forall g t c k sid openerr ioerr s, fresh g s -> good s (fst (do_io g t c k sid openerr ioerr s)).
Proof.
  intros g t c k sid openerr ioerr s Hfr. unfold do_io.
  destruct (internalize sid) as [|st|sq other]; [|apply good_refl|].
  - (* special state ID: open and close around the call *)
    destruct k; destruct c; try apply good_refl;
    (destruct (openerr =? NFS4_OK); [|apply good_refl]); cbn [fst];
    intros H0; (split; [apply Inv_w_ll; exact H0|]); intros h' rd; rewrite Phi_w_ll; simpl calls_net; unfold call_net; simpl;
    destruct ((h =? h') && bit rd _); lia.
  - cbv zeta. set (s1 := enter t s). assert (G1 : good s s1) by (unfold s1; good_tac).
    assert (Hfr1 : fresh g s1) by (apply (fresh_eq g s); [unfold s1; apply psame_enter|exact Hfr]).
    set (acc := io_access k).
    destruct (get_oofs sq other false c s1) as [o|st] eqn:Eg.
    + destruct (mask_subset acc (of_sa o)) eqn:Es; [|exact G1]. cbn [fst].
      destruct (get_oofs_In _ _ _ _ _ _ Eg) as [Hin Hk].
      intros H0. destruct (G1 H0) as [I1 P1].
      assert (Ih : Inv (hold (of_client o) s1)) by (eapply view_eq_Inv; [apply view_hold|exact I1]).
      destruct (clone_add_pio_good (hold (of_client o) s1) g (of_other o) (of_client o) acc Ih) as [I2 P2].
      * apply (fresh_eq g s1); [apply (psame_view _ (view_hold (of_client o)))|exact Hfr1].
      * destruct (view_hold (of_client o) s1) as (_&_&_&_&Er). rewrite Er. destruct I1 as [_ _ (A&_&_)]. apply A. exact Hin.
      * intros x rd Hx Hxk Hb. destruct (view_hold (of_client o) s1) as (Eo&_). rewrite Eo in Hx.
        assert (x = o) by (eapply (NoDup_key_eq of_other (st_oofs s1)); [exact (proj1 (inv_U s1 I1))|exact Hx|exact Hin|congruence]). subst x.
        apply (K_pos_sa s1 o rd); [apply I1|exact Hin|]. eapply mask_subset_bit; eassumption.
      * split; [exact I2|]. intros. rewrite P2. rewrite (view_eq_Phi _ _ h rd (view_hold (of_client o) s1)). apply P1.
    + destruct (st =? ERR_BAD_STATEID); [|exact G1].
      destruct (get_lofs sq other c s1) as [lf|st2] eqn:El; [|exact G1].
      destruct (mask_subset acc (lf_sa lf)) eqn:Es; [|exact G1]. cbn [fst].
      destruct (get_lofs_In _ _ _ _ _ El) as [Hl _].
      set (client := match find_oofs (lf_oofs lf) s1 with Some o => of_client o | None => 0 end).
      intros H0. destruct (G1 H0) as [I1 P1].
      assert (Ih : Inv (hold client s1)) by (eapply view_eq_Inv; [apply view_hold|exact I1]).
      destruct (clone_add_pio_good (hold client s1) g (lf_oofs lf) client acc Ih) as [I2 P2].
      * apply (fresh_eq g s1); [apply (psame_view _ (view_hold client))|exact Hfr1].
      * destruct (view_hold client s1) as (_&_&_&_&Er). rewrite Er. destruct I1 as [_ _ (_&B&_)]. apply (B lf Hl).
      * intros x rd Hx Hxk Hb. destruct (view_hold client s1) as (Eo&_). rewrite Eo in Hx.
        pose proof (inv_K s1 I1 x rd Hx) as Kx. unfold expected in Kx. rewrite Hxk in Kx.
        assert (Hon : lofs_on (lf_oofs lf) rd lf = true).
        { unfold lofs_on. rewrite N.eqb_refl. simpl. eapply mask_subset_bit; eassumption. }
        pose proof (cntb_pos_In (lofs_on (lf_oofs lf) rd) (st_lofs s1) lf Hl Hon).
        pose proof (cntb_nonneg (io_on (lf_oofs lf) rd) (st_pending s1)).
        unfold b2z in Kx. destruct (bit rd (of_sa x)); destruct (lf_oofs lf =? 0); lia.
      * split; [exact I2|]. intros. rewrite P2. rewrite (view_eq_Phi _ _ h rd (view_hold client s1)). apply P1.
Qed.

Lemma do_io_ret_good : forall g t st s, good s (fst (do_io_ret g t st s)).
Proof.
  intros g t st s. unfold do_io_ret.
  destruct (find_by (fun p => fst p =? g) (st_pending s)) as [[g' p]|] eqn:Ef; [|apply good_refl].
  destruct p as [|other client cloned]; [apply good_refl|].
  apply find_pending_In in Ef. destruct Ef as [Hin Hg]. simpl in Hg. subst g'.
  cbv zeta. cbn [fst]. eapply good_view; [|apply view_release].
  set (s1 := enter t s). assert (G1 : good s s1) by (unfold s1; good_tac).
  assert (Hin1 : In (g, PIo other client cloned) (st_pending s1)) by (unfold s1; rewrite psame_enter; exact Hin).
  intros H0. destruct (G1 H0) as [I1 P1].
  destruct (del_pio_ok s1 g other client cloned I1 Hin1) as (K2&U2&F2&P2).
  destruct (oofs_release_ok other cloned _ U2 F2 K2) as [I3 P3].
  split; [exact I3|]. intros. rewrite P3, P2. apply P1.
Qed.

(* ---- one request, one event, all histories ---------------------------------------------------------------- *)
Lemma tx_lock_successive_good : forall ltype off len c sq other s0 s, good s0 s -> good s0 (fst (tx_lock_successive ltype off len c sq other s)).
Proof.
  intros. unfold tx_lock_successive. destruct (get_lofs sq other c s); [|assumption].
  apply tx_lock_common_good. assumption.
Qed.

Lemma do_req_good : forall g t fh r s, fresh g s -> good s (fst (do_req g t fh r s)).
Proof.
  intros g t fh r s Hfr. unfold do_req. destruct (resolve_fh fh s) as [c|st]; [|apply good_refl].
  destruct r.
  - apply do_setclientid_good.
  - apply do_setclientid_confirm_good.
  - apply do_renew_good.
  - apply do_open_good. exact Hfr.
  - apply owner_op_good. intros. apply tx_open_confirm_good. assumption.
  - apply owner_op_good. intros. apply tx_open_downgrade_good. assumption.
  - apply owner_op_good. intros. apply tx_close_good. assumption.
  - apply owner_op_good. intros. apply tx_lock_initial_good. assumption.
  - apply lock_owner_op_good. intros. apply tx_lock_successive_good. assumption.
  - apply do_lockt_good.
  - apply lock_owner_op_good. intros. apply tx_locku_good. assumption.
  - apply do_release_lockowner_good.
  - apply do_io_good. exact Hfr.
  - apply good_refl.
Qed.

Theorem step_inv : forall s e, Inv s -> st_ll s = [] ->
  Inv (fst (step s e)) /\ st_ll (fst (step s e)) = [] /\
  forall h rd, Phi (fst (step s e)) h rd = (Phi s h rd + calls_net h rd (o_calls (snd (step s e))))%Z.
Proof.
  intros s e HI Hll. unfold step.
  set (r := match e with
            | EReq g t fh r0 => if existsb (fun p => fst p =? g) (st_pending s) then (s, RpOp (ResStatus ERR_RESOURCE)) else do_req g t fh r0 s
            | EOpenRet g t res => do_open_ret g t res s
            | EIoRet g t st => do_io_ret g t st s
            end).
  assert (G : good s (fst r)).
  { unfold r. destruct e as [g t fh r0|g t res|g t st].
    - destruct (existsb (fun p => fst p =? g) (st_pending s)) eqn:Ex; [apply good_refl|].
      apply do_req_good. apply fresh_of_existsb. exact Ex.
    - apply do_open_ret_good.
    - apply do_io_ret_good. }
  destruct r as [s1 rp]. cbn [fst snd] in *. destruct (G HI) as [I1 P1].
  split; [apply Inv_w_ll; exact I1|]. split; [reflexivity|].
  intros h rd. rewrite Phi_w_ll, P1. simpl o_calls. rewrite calls_net_rev. simpl calls_net. lia.
Qed.

Fixpoint outs_net (h : N) (rd : bool) (outs : list output) : Z :=
  match outs with [] => 0%Z | o :: tl => (calls_net h rd (o_calls o) + outs_net h rd tl)%Z end.

Theorem run_inv : forall evs s, Inv s -> st_ll s = [] ->
  Inv (fst (run s evs)) /\ st_ll (fst (run s evs)) = [] /\
  forall h rd, Phi (fst (run s evs)) h rd = (Phi s h rd + outs_net h rd (snd (run s evs)))%Z.
Proof.
  induction evs as [|e tl IH]; intros s HI Hll; simpl.
  - split; [exact HI|]. split; [exact Hll|]. intros. lia.
  - destruct (step_inv s e HI Hll) as (I1&L1&P1). destruct (step s e) as [s1 o]. cbn [fst snd] in *.
    destruct (IH s1 I1 L1) as (I2&L2&P2). destruct (run s1 tl) as [s2 os]. cbn [fst snd] in *.
    split; [exact I2|]. split; [exact L2|]. intros. rewrite P2, P1. simpl. lia.
Qed.

Lemma Inv_init : Inv init.
Proof.
  constructor.
  - intros o rd [].
  - unfold U. simpl. repeat split; constructor.
  - unfold Fr. simpl. split; [intros ? []|split; intros ? []].
Qed.

(* holders of an access bit of a leaf: open-owner file objects (in the tables, or
   kept alive by in-flight I/O only) whose share count for the bit is positive *)
Definition holders (s : state) (h : N) (rd : bool) : Z := cntb (holder h rd) (st_oofs s).
(* closes scheduled by OPENs that are parked in the file system *)
Definition deferred (s : state) (h : N) (rd : bool) : Z := (- pends_net h rd (st_pending s))%Z.

(* open_close_balanced: at every moment, opens minus closes seen by a leaf for
   an access bit = number of holders + closes deferred by parked OPENs *)
Theorem open_close_balanced : forall evs h rd,
  outs_net h rd (snd (run init evs)) = (holders (state_after evs) h rd + deferred (state_after evs) h rd)%Z.
Proof.
  intros evs h rd. destruct (run_inv evs init Inv_init eq_refl) as (I&L&P).
  specialize (P h rd). unfold state_after, holders, deferred. unfold Phi in P. rewrite L in P. simpl in P. lia.
Qed.

(* share counts are exact in every reachable state *)
Theorem share_count_exact : forall evs o rd,
  In o (st_oofs (state_after evs)) ->
  Z.of_N (cnt rd o) = expected (state_after evs) (of_other o) (of_sa o) rd.
Proof.
  intros evs o rd Hin. destruct (run_inv evs init Inv_init eq_refl) as (I&_&_).
  pose proof (inv_K _ I o rd Hin) as H. unfold state_after in *. destruct (of_other o =? 0); lia.
Qed.

Lemma pends_net_no_open : forall h rd l,
  (forall p, In p l -> match snd p with POpen _ _ _ _ _ _ => False | _ => True end) -> pends_net h rd l = 0%Z.
Proof.
  intros h rd l. induction l as [|p tl IH]; intros H; [reflexivity|]. simpl.
  rewrite IH by (intros; apply H; right; assumption).
  specialize (H p (or_introl eq_refl)). unfold pend_net. destruct (snd p); [contradiction|reflexivity].
Qed.

(* never more closes than opens, and no close while a state ID still entitles:
   whenever no OPEN is parked, the leaf is open for a bit at least once per
   open-owner file whose share mask, lock-owner files or in-flight I/O hold it *)
Theorem closes_le_opens : forall evs h rd,
  (forall p, In p (st_pending (state_after evs)) -> match snd p with POpen _ _ _ _ _ _ => False | _ => True end) ->
  (0 <= outs_net h rd (snd (run init evs)))%Z /\
  outs_net h rd (snd (run init evs)) = holders (state_after evs) h rd.
Proof.
  intros evs h rd Hp. rewrite open_close_balanced. unfold deferred. rewrite (pends_net_no_open h rd _ Hp).
  unfold holders. pose proof (cntb_nonneg (holder h rd) (st_oofs (state_after evs))). lia.
Qed.

Theorem no_close_while_entitled : forall evs o rd,
  (forall p, In p (st_pending (state_after evs)) -> match snd p with POpen _ _ _ _ _ _ => False | _ => True end) ->
  In o (st_oofs (state_after evs)) ->
  (bit rd (of_sa o) = true
   \/ (exists l, In l (st_lofs (state_after evs)) /\ lf_oofs l = of_other o /\ bit rd (lf_sa l) = true)
   \/ (exists g c m, In (g, PIo (of_other o) c m) (st_pending (state_after evs)) /\ bit rd m = true)) ->
  (1 <= outs_net (of_handle o) rd (snd (run init evs)))%Z.
Proof.
  intros evs o rd Hp Hin Hent. destruct (closes_le_opens evs (of_handle o) rd Hp) as [_ E]. rewrite E.
  pose proof (share_count_exact evs o rd Hin) as HK. unfold expected in HK.
  pose proof (cntb_nonneg (lofs_on (of_other o) rd) (st_lofs (state_after evs))).
  pose proof (cntb_nonneg (io_on (of_other o) rd) (st_pending (state_after evs))).
  assert (Hpos : 0 < cnt rd o).
  { destruct Hent as [Hb | [[l [Hl [Hk Hb]]] | [g [c [m [Hg Hb]]]]]].
    - rewrite Hb in HK. unfold b2z in HK. cbv iota in HK. lia.
    - assert (lofs_on (of_other o) rd l = true) by (unfold lofs_on; rewrite Hk, N.eqb_refl, Hb; reflexivity).
      pose proof (cntb_pos_In _ _ l Hl H1). unfold b2z in HK. destruct (bit rd (of_sa o)); lia.
    - assert (io_on (of_other o) rd (g, PIo (of_other o) c m) = true) by (unfold io_on; simpl; rewrite N.eqb_refl, Hb; reflexivity).
      pose proof (cntb_pos_In _ _ _ Hg H1). unfold b2z in HK. destruct (bit rd (of_sa o)); lia. }
  unfold holders. apply (cntb_pos_In (holder (of_handle o) rd) _ o Hin).
  unfold holder. rewrite N.eqb_refl. simpl. apply N.ltb_lt. exact Hpos.
Qed.
