(* C19 for the NFSv4.0 model: statements about one request (no induction over
   histories is needed: the replay cache of an owner is part of the state). *)
From VF Require Import Nfs40.Model.
From Coq Require Import Lia.
Open Scope N_scope.

Lemma should_complete_list_lemma : forall st,
  should_complete st = false <->
  In st [ERR_STALE_CLIENTID; ERR_STALE_STATEID; ERR_BAD_STATEID; ERR_BAD_SEQID;
         ERR_BADXDR; ERR_RESOURCE; ERR_NOFILEHANDLE; ERR_MOVED].
Proof.
  intro st. unfold should_complete. rewrite Bool.negb_false_iff. repeat rewrite Bool.orb_true_iff.
  repeat rewrite N.eqb_eq. simpl. intuition congruence.
Qed.

(* ---- tables --------------------------------------------------------------- *)
Lemma find_by_upd_by : forall {A} (p : A -> bool) (f : A -> A) (l : list A),
  (forall x, p x = true -> p (f x) = true) ->
  find_by p (upd_by p f l) = option_map f (find_by p l).
Proof.
  intros A p f l Hp. induction l as [|x tl IH]; simpl; [reflexivity|].
  destruct (p x) eqn:E; simpl.
  - rewrite (Hp x E). reflexivity.
  - rewrite E. exact IH.
Qed.

Lemma oos_is_refl : forall o, oos_is (oo_client o, oo_key o) o = true.
Proof. intros o. unfold oos_is, pair_eqb. simpl. rewrite !N.eqb_refl. reflexivity. Qed.

Lemma oos_is_keys : forall ck o, oos_is ck o = true -> (oo_client o, oo_key o) = ck.
Proof.
  intros [a b] o H. unfold oos_is, pair_eqb in H. simpl in H.
  apply andb_prop in H. destruct H as [H1 H2]. apply N.eqb_eq in H1, H2. subst. reflexivity.
Qed.

(* ---- startTransaction ------------------------------------------------------- *)
Lemma start_tx_replay : forall ck seq pol s o c,
  find_oos ck s = Some o -> oo_intx o = false -> oo_last o = Some c -> seq = oo_lastseq o ->
  oos_start_tx ck seq pol s = (s, TxReplay c).
Proof.
  intros ck seq pol s o c Hf Hi Hl Hs. unfold oos_start_tx. rewrite Hf, Hi, Hl. subst seq.
  rewrite N.eqb_refl. reflexivity.
Qed.

Definition replay_candidate (o : oos) (seq : N) : bool :=
  match oo_last o with Some _ => seq =? oo_lastseq o | None => false end.

Lemma start_tx_misordered : forall ck seq pol s o,
  find_oos ck s = Some o -> oo_intx o = false -> oo_confirmed o = true ->
  replay_candidate o seq = false -> seq <> next_seq (oo_lastseq o) ->
  oos_start_tx ck seq pol s = (s, TxFail ERR_BAD_SEQID).
Proof.
  intros ck seq pol s o Hf Hi Hc Hr Hn. unfold oos_start_tx. rewrite Hf, Hi.
  unfold replay_candidate in Hr.
  assert (E : match oo_last o with Some c => if seq =? oo_lastseq o then Some c else None | None => None end = None).
  { destruct (oo_last o); [rewrite Hr|]; reflexivity. }
  rewrite E, Hc. apply N.eqb_neq in Hn. rewrite Hn. reflexivity.
Qed.

Lemma start_tx_unconfirmed_deny : forall ck seq s o,
  find_oos ck s = Some o -> oo_intx o = false -> oo_confirmed o = false ->
  replay_candidate o seq = false ->
  oos_start_tx ck seq PolDeny s = (s, TxFail ERR_BAD_SEQID).
Proof.
  intros ck seq s o Hf Hi Hc Hr. unfold oos_start_tx. rewrite Hf, Hi.
  unfold replay_candidate in Hr.
  assert (E : match oo_last o with Some c => if seq =? oo_lastseq o then Some c else None | None => None end = None).
  { destruct (oo_last o); [rewrite Hr|]; reflexivity. }
  rewrite E, Hc. reflexivity.
Qed.

Lemma los_start_tx_replay : forall lk seq initial s l c,
  find_los lk s = Some l -> lo_last l = Some c -> seq = lo_lastseq l ->
  los_start_tx lk seq initial s = (s, TxReplay c).
Proof.
  intros lk seq initial s l c Hf Hl Hs. unfold los_start_tx. rewrite Hf, Hl. subst seq.
  rewrite N.eqb_refl. reflexivity.
Qed.

Lemma los_start_tx_misordered : forall lk seq s l,
  find_los lk s = Some l ->
  match lo_last l with Some _ => seq =? lo_lastseq l | None => false end = false ->
  seq <> next_seq (lo_lastseq l) ->
  los_start_tx lk seq false s = (s, TxFail ERR_BAD_SEQID).
Proof.
  intros lk seq s l Hf Hr Hn. unfold los_start_tx. rewrite Hf.
  assert (E : match lo_last l with Some c => if seq =? lo_lastseq l then Some c else None | None => None end = None).
  { destruct (lo_last l); [rewrite Hr|]; reflexivity. }
  rewrite E. apply N.eqb_neq in Hn. rewrite Hn. reflexivity.
Qed.

(* ---- replay_same_reply40 ------------------------------------------------------ *)
(* OPEN_CONFIRM, OPEN_DOWNGRADE, CLOSE and LOCK (new lock-owner): the request
   carries the sequence id of the owner's cached reply.  The reply is the
   cached one (subject to the type / state ID check of replay_reply), and the
   state is exactly what enter() alone produces: nothing is executed, no leaf
   is called. *)
Lemma owner_op_replay : forall t ef k sid seq pol body s sq other o oo c,
  internalize_regular sid = IsReg sq other ->
  find_live_oofs other (enter t s) = Some o ->
  find_oos (of_client o, of_owner o) (enter t s) = Some oo ->
  oo_intx oo = false -> oo_last oo = Some c -> seq = oo_lastseq oo ->
  owner_op t ef k sid seq pol body s
  = (enter t s, RpOp (replay_reply k (match k with KLock => None | _ => Some sid end) c)).
Proof.
  intros t ef k sid seq pol body s sq other o oo c Hi Hf Ho Hx Hl Hs.
  unfold owner_op. rewrite Hi.
  assert (E : (if ef then (if ef then enter t s else s) else enter t (if ef then enter t s else s)) = enter t s)
    by (destruct ef; reflexivity).
  rewrite E, Hf, Ho, Hx.
  rewrite (start_tx_replay _ _ _ _ _ _ Ho Hx Hl Hs). reflexivity.
Qed.

Lemma owner_op_misordered : forall t ef k sid seq pol body s sq other o oo,
  internalize_regular sid = IsReg sq other ->
  find_live_oofs other (enter t s) = Some o ->
  find_oos (of_client o, of_owner o) (enter t s) = Some oo ->
  oo_intx oo = false -> oo_confirmed oo = true ->
  replay_candidate oo seq = false -> seq <> next_seq (oo_lastseq oo) ->
  owner_op t ef k sid seq pol body s = (enter t s, RpOp (ResStatus ERR_BAD_SEQID)).
Proof.
  intros t ef k sid seq pol body s sq other o oo Hi Hf Ho Hx Hc Hr Hn.
  unfold owner_op. rewrite Hi.
  assert (E : (if ef then (if ef then enter t s else s) else enter t (if ef then enter t s else s)) = enter t s)
    by (destruct ef; reflexivity).
  rewrite E, Hf, Ho, Hx.
  rewrite (start_tx_misordered _ _ _ _ _ Ho Hx Hc Hr Hn). reflexivity.
Qed.

Lemma owner_op_unconfirmed_deny : forall t ef k sid seq body s sq other o oo,
  internalize_regular sid = IsReg sq other ->
  find_live_oofs other (enter t s) = Some o ->
  find_oos (of_client o, of_owner o) (enter t s) = Some oo ->
  oo_intx oo = false -> oo_confirmed oo = false -> replay_candidate oo seq = false ->
  owner_op t ef k sid seq PolDeny body s = (enter t s, RpOp (ResStatus ERR_BAD_SEQID)).
Proof.
  intros t ef k sid seq body s sq other o oo Hi Hf Ho Hx Hc Hr.
  unfold owner_op. rewrite Hi.
  assert (E : (if ef then (if ef then enter t s else s) else enter t (if ef then enter t s else s)) = enter t s)
    by (destruct ef; reflexivity).
  rewrite E, Hf, Ho, Hx.
  rewrite (start_tx_unconfirmed_deny _ _ _ _ Ho Hx Hc Hr). reflexivity.
Qed.

(* A request on an owner whose transaction is in flight has no effect beyond
   enter(): it waits. *)
Lemma owner_op_blocked : forall t ef k sid seq pol body s sq other o oo,
  internalize_regular sid = IsReg sq other ->
  find_live_oofs other (enter t s) = Some o ->
  find_oos (of_client o, of_owner o) (enter t s) = Some oo -> oo_intx oo = true ->
  owner_op t ef k sid seq pol body s = (enter t s, RpBlocked).
Proof.
  intros t ef k sid seq pol body s sq other o oo Hi Hf Ho Hx.
  unfold owner_op. rewrite Hi.
  assert (E : (if ef then (if ef then enter t s else s) else enter t (if ef then enter t s else s)) = enter t s)
    by (destruct ef; reflexivity).
  rewrite E, Hf, Ho, Hx. reflexivity.
Qed.

(* OPEN *)
Lemma w_ll_restore : forall s, w_ll (w_ll s []) ([] ++ st_ll s) = s.
Proof. intros s. destruct s. reflexivity. Qed.

Lemma open_replay : forall g t c a s oo ca,
  confirmed_client (oa_client a) (enter t s) = true ->
  find_oos (oa_client a, oa_owner a) (enter t s) = Some oo ->
  oo_intx oo = false -> oo_last oo = Some ca -> oa_seq a = oo_lastseq oo ->
  do_open g t c a s = (enter t s, RpOp (replay_reply KOpen None ca)).
Proof.
  intros g t c a s oo ca Hc Ho Hx Hl Hs. unfold do_open, do_open_body.
  change (confirmed_client (oa_client a) (w_ll (enter t s) [])) with (confirmed_client (oa_client a) (enter t s)).
  rewrite Hc. cbn [negb].
  change (find_oos (oa_client a, oa_owner a) (w_ll (enter t s) [])) with (find_oos (oa_client a, oa_owner a) (enter t s)).
  rewrite Ho.
  change (find_oos (oa_client a, oa_owner a) (w_ll (enter t s) [])) with (find_oos (oa_client a, oa_owner a) (enter t s)).
  rewrite Ho, Hx.
  rewrite (start_tx_replay (oa_client a, oa_owner a) (oa_seq a) PolReinit (w_ll (enter t s) []) oo ca Ho Hx Hl Hs).
  rewrite w_ll_restore. reflexivity.
Qed.

Lemma open_misordered : forall g t c a s oo,
  confirmed_client (oa_client a) (enter t s) = true ->
  find_oos (oa_client a, oa_owner a) (enter t s) = Some oo ->
  oo_intx oo = false -> oo_confirmed oo = true ->
  replay_candidate oo (oa_seq a) = false -> oa_seq a <> next_seq (oo_lastseq oo) ->
  do_open g t c a s = (enter t s, RpOp (ResStatus ERR_BAD_SEQID)).
Proof.
  intros g t c a s oo Hc Ho Hx Hcf Hr Hn. unfold do_open, do_open_body.
  change (confirmed_client (oa_client a) (w_ll (enter t s) [])) with (confirmed_client (oa_client a) (enter t s)).
  rewrite Hc. cbn [negb].
  change (find_oos (oa_client a, oa_owner a) (w_ll (enter t s) [])) with (find_oos (oa_client a, oa_owner a) (enter t s)).
  rewrite Ho.
  change (find_oos (oa_client a, oa_owner a) (w_ll (enter t s) [])) with (find_oos (oa_client a, oa_owner a) (enter t s)).
  rewrite Ho, Hx.
  rewrite (start_tx_misordered (oa_client a, oa_owner a) (oa_seq a) PolReinit (w_ll (enter t s) []) oo Ho Hx Hcf Hr Hn).
  rewrite w_ll_restore. reflexivity.
Qed.

(* LOCK (existing lock-owner) and LOCKU *)
Lemma lock_owner_op_replay : forall t k lsid seq body s sq other lf l c,
  internalize_regular lsid = IsReg sq other ->
  find_lofs other (enter t s) = Some lf ->
  find_los (lf_client lf, lf_lokey lf) (enter t s) = Some l ->
  lo_last l = Some c -> seq = lo_lastseq l ->
  lock_owner_op t k lsid seq body s = (enter t s, RpOp (replay_reply k (Some lsid) c)).
Proof.
  intros t k lsid seq body s sq other lf l c Hi Hf Hl Hc Hs.
  unfold lock_owner_op. rewrite Hi, Hf.
  rewrite (los_start_tx_replay _ _ _ _ _ _ Hl Hc Hs). reflexivity.
Qed.

Lemma lock_owner_op_misordered : forall t k lsid seq body s sq other lf l,
  internalize_regular lsid = IsReg sq other ->
  find_lofs other (enter t s) = Some lf ->
  find_los (lf_client lf, lf_lokey lf) (enter t s) = Some l ->
  match lo_last l with Some _ => seq =? lo_lastseq l | None => false end = false ->
  seq <> next_seq (lo_lastseq l) ->
  lock_owner_op t k lsid seq body s = (enter t s, RpOp (ResStatus ERR_BAD_SEQID)).
Proof.
  intros t k lsid seq body s sq other lf l Hi Hf Hl Hr Hn.
  unfold lock_owner_op. rewrite Hi, Hf.
  rewrite (los_start_tx_misordered _ _ _ _ Hl Hr Hn). reflexivity.
Qed.

(* ---- what replay_reply returns -------------------------------------------------- *)
Definition same_kind (a b : rkind) : bool :=
  match a, b with
  | KOpen, KOpen | KOpenConfirm, KOpenConfirm | KOpenDowngrade, KOpenDowngrade
  | KClose, KClose | KLock, KLock | KLocku, KLocku => true
  | _, _ => false
  end.

(* The retransmission of the request that produced the cached reply - same
   operation, and for a reply carrying a state ID the predecessor state ID -
   is answered with exactly that reply. *)
Lemma replay_reply_same : forall k sid c,
  same_kind k (ca_kind c) = true ->
  match sid, ca_res c with
  | Some sd, ResStateid cs co => is_next_sid cs co sd = true
  | _, _ => True
  end ->
  replay_reply k sid c = ca_res c.
Proof.
  intros k sid c Hk Hs. unfold replay_reply.
  replace (match k, ca_kind c with
           | KOpen, KOpen | KOpenConfirm, KOpenConfirm | KOpenDowngrade, KOpenDowngrade
           | KClose, KClose | KLock, KLock | KLocku, KLocku => true
           | _, _ => false end) with (same_kind k (ca_kind c)) by reflexivity.
  rewrite Hk. simpl. destruct sid as [sd|]; [|reflexivity].
  destruct (ca_res c); try reflexivity. rewrite Hs. reflexivity.
Qed.

(* false_retry_detected, the part the code implements: the cached reply is
   handed out only to a request of the same operation type whose state ID (if
   the reply carries one) is the predecessor of the cached one; everything
   else is rejected with BAD_SEQID. *)
Lemma replay_reply_checked : forall k sid c,
  replay_reply k sid c = ca_res c \/ replay_reply k sid c = ResStatus ERR_BAD_SEQID.
Proof.
  intros k sid c. unfold replay_reply.
  destruct (match k, ca_kind c with
           | KOpen, KOpen | KOpenConfirm, KOpenConfirm | KOpenDowngrade, KOpenDowngrade
           | KClose, KClose | KLock, KLock | KLocku, KLocku => true
           | _, _ => false end); simpl; [|right; reflexivity].
  destruct sid as [sd|]; [|left; reflexivity].
  destruct (ca_res c); try (left; reflexivity).
  destruct (is_next_sid seq other sd); [left|right]; reflexivity.
Qed.

Lemma replay_reply_detects : forall k sd c cs co,
  ca_res c = ResStateid cs co ->
  (same_kind k (ca_kind c) = false \/ is_next_sid cs co sd = false) ->
  replay_reply k (Some sd) c = ResStatus ERR_BAD_SEQID.
Proof.
  intros k sd c cs co Hr H. unfold replay_reply.
  replace (match k, ca_kind c with
           | KOpen, KOpen | KOpenConfirm, KOpenConfirm | KOpenDowngrade, KOpenDowngrade
           | KClose, KClose | KLock, KLock | KLocku, KLocku => true
           | _, _ => false end) with (same_kind k (ca_kind c)) by reflexivity.
  destruct (same_kind k (ca_kind c)) eqn:E; simpl; [|reflexivity].
  rewrite Hr. destruct H as [H|H]; [discriminate|]. rewrite H. reflexivity.
Qed.

(* ---- seqid_advances_iff_should_complete ------------------------------------------- *)
Lemma find_oos_w_unused : forall ck s v, find_oos ck (w_unused s v) = find_oos ck s.
Proof. reflexivity. Qed.

Lemma find_oos_release : forall ck sh s, find_oos ck (release sh s) = find_oos ck s.
Proof.
  intros ck sh s. unfold release. destruct (find_conf sh s); [|reflexivity].
  destruct (cf_hold c =? 0); [reflexivity|]. destruct (cf_hold c =? 1); reflexivity.
Qed.

Lemma find_oos_upd_same : forall ck f s,
  (forall o, (oo_client (f o), oo_key (f o)) = (oo_client o, oo_key o)) ->
  find_oos ck (upd_oos ck f s) = option_map f (find_oos ck s).
Proof.
  intros ck f s Hk. unfold find_oos, upd_oos. simpl. apply find_by_upd_by.
  intros x Hx. unfold oos_is in *. rewrite Hk. exact Hx.
Qed.

Theorem complete_tx_seqid : forall ck seq c s o,
  find_oos ck s = Some o ->
  exists o', find_oos ck (oos_complete_tx ck seq c s) = Some o' /\
    oo_intx o' = false /\
    (should_complete (status_of (ca_res c)) = true -> oo_lastseq o' = seq /\ oo_last o' = Some c) /\
    (should_complete (status_of (ca_res c)) = false -> oo_lastseq o' = oo_lastseq o /\ oo_last o' = oo_last o).
Proof.
  intros ck seq c s o Hf. unfold oos_complete_tx.
  rewrite find_oos_release.
  set (s1 := set_oos_intx ck false s).
  assert (H1 : find_oos ck s1 = Some (mkOos (oo_client o) (oo_key o) (oo_confirmed o) (oo_lastseq o) (oo_last o) false (oo_lastused o))).
  { unfold s1, set_oos_intx. rewrite find_oos_upd_same by reflexivity. rewrite Hf. reflexivity. }
  destruct (should_complete (status_of (ca_res c))) eqn:Esc.
  - set (s2 := upd_oos ck _ s1).
    assert (H2 : find_oos ck s2 = Some (mkOos (oo_client o) (oo_key o) (oo_confirmed o) seq (Some c) false (oo_lastused o))).
    { unfold s2. rewrite find_oos_upd_same by reflexivity. rewrite H1. reflexivity. }
    destruct (is_unused ck s2).
    + rewrite find_oos_w_unused, find_oos_upd_same by reflexivity. rewrite H2. simpl.
      eexists. split; [reflexivity|]. simpl. repeat split; intros; try discriminate; reflexivity.
    + rewrite H2. eexists. split; [reflexivity|]. simpl. repeat split; intros; try discriminate; reflexivity.
  - destruct (is_unused ck s1).
    + rewrite find_oos_w_unused, find_oos_upd_same by reflexivity. rewrite H1. simpl.
      eexists. split; [reflexivity|]. simpl. repeat split; intros; try discriminate; reflexivity.
    + rewrite H1. eexists. split; [reflexivity|]. simpl. repeat split; intros; try discriminate; reflexivity.
Qed.

(* ---- F11: OPEN and LOCK (new lock-owner) replays are matched on type and seqid only ---- *)
Definition ev_setup : list event :=
  [ EReq 1 1000 FhNone (RSetClientId 1 1);
    EReq 2 1000 FhNone (RSetClientIdConfirm 1000 1001);
    EReq 3 1000 FhRoot (ROpen (mkOpenArgs 1000 0 1 1 0 HowNoCreate (ClNull (NmOk 0))));
    EOpenRet 3 1000 (OrOk 1) ].
(* a different OPEN (other name, write access) with the same seqid *)
Definition ev_false_retry : event :=
  EReq 4 1000 FhRoot (ROpen (mkOpenArgs 1000 0 1 2 0 HowNoCreate (ClNull (NmOk 1)))).

Lemma false_retry_open_witness :
  let '(s, outs) := run init ev_setup in
  let '(_, o) := step s ev_false_retry in
  nth_error outs 3 = Some (mkOut (RpOp (ResOpen 1 1002 true)) [mkCall 1 true (mkMask true false)])
  /\ o = mkOut (RpOp (ResOpen 1 1002 true)) [].
Proof. vm_compute. split; reflexivity. Qed.
