(* C18 through the NFSv4.0 model - the property theorems, and nothing else. *)
From VF Require Import Nfs40.Model Nfs40.ProofsInv Nfs40.ProofsInv2 Nfs40.ProofsAux Nfs40.Proofs18 Nfs40.ProofsLease.
Open Scope N_scope.

(* open_close_balanced: for every history (any interleaving of critical
   sections, clients vanishing, lease expiry, calls parked in the file system)
   and every leaf and access bit: opens minus closes made on the leaf so far =
   number of open-owner file objects holding the bit + closes that OPENs parked
   in the file system still carry in their leavesToClose. *)
Theorem open_close_balanced : forall evs h rd,
  outs_net h rd (snd (run init evs))
  = (holders (state_after evs) h rd + deferred (state_after evs) h rd)%Z.
Proof. exact ProofsInv2.open_close_balanced. Qed.
Print Assumptions open_close_balanced.

(* closes <= opens, with equality to the number of holders, whenever no OPEN
   is parked: in particular everything is closed once no holder is left
   (after CLOSE, re-registration or lease expiry have completed). *)
Theorem closes_le_opens : forall evs h rd,
  (forall p, In p (st_pending (state_after evs)) -> match snd p with POpen _ _ _ _ _ _ => False | _ => True end) ->
  (0 <= outs_net h rd (snd (run init evs)))%Z /\
  outs_net h rd (snd (run init evs)) = holders (state_after evs) h rd.
Proof. exact ProofsInv2.closes_le_opens. Qed.
Print Assumptions closes_le_opens.

(* shareCount.readers / writers = the open state's own share + lock-owner
   files that cloned it + in-flight I/O that cloned it, in every reachable state. *)
Theorem share_count_exact : forall evs o rd,
  In o (st_oofs (state_after evs)) ->
  Z.of_N (cnt rd o) = expected (state_after evs) (of_other o) (of_sa o) rd.
Proof. exact ProofsInv2.share_count_exact. Qed.
Print Assumptions share_count_exact.

(* no_close_while_entitled: while an open state ID, a lock state ID or an
   in-flight I/O call entitles to an access bit, the leaf is open for it. *)
Theorem no_close_while_entitled : forall evs o rd,
  (forall p, In p (st_pending (state_after evs)) -> match snd p with POpen _ _ _ _ _ _ => False | _ => True end) ->
  In o (st_oofs (state_after evs)) ->
  (bit rd (of_sa o) = true
   \/ (exists l, In l (st_lofs (state_after evs)) /\ lf_oofs l = of_other o /\ bit rd (lf_sa l) = true)
   \/ (exists g c m, In (g, PIo (of_other o) c m) (st_pending (state_after evs)) /\ bit rd m = true)) ->
  (1 <= outs_net (of_handle o) rd (snd (run init evs)))%Z.
Proof. exact ProofsInv2.no_close_while_entitled. Qed.
Print Assumptions no_close_while_entitled.

(* the accounting invariant itself, for every history *)
Theorem accounting_invariant : forall evs, Inv (state_after evs) /\ st_ll (state_after evs) = [].
Proof.
  intros evs. destruct (run_inv evs init Inv_init eq_refl) as (I&L&_). split; assumption.
Qed.
Print Assumptions accounting_invariant.

(* open_stays_resolvable: in every reachable state the opened-files pool has
   an entry for the handle of every open-owner file in the tables, so PUTFH
   of that handle succeeds even after the file was unlinked (linked = false) *)
Theorem open_stays_resolvable : forall evs o,
  In o (st_oofs (state_after evs)) -> of_live o = true ->
  resolve_fh (FhFile (of_handle o) false) (state_after evs) = inl (CurLeaf (of_handle o)).
Proof. exact ProofsAux.open_stays_resolvable. Qed.
Print Assumptions open_stays_resolvable.

(* useCount of a handle in the pool = number of open-owner files on it *)
Theorem pool_use_count_exact : forall evs h, use_of (state_after evs) h = live_on (state_after evs) h.
Proof. exact ProofsAux.pool_use_count_exact. Qed.
Print Assumptions pool_use_count_exact.

(* stateid_scope: a state ID is honoured only for the open-owner file (lock-owner
   file) it names, with the current file handle being that file's, with the
   exact current seqid, while the share reservation is in place and - except
   for OPEN_CONFIRM - the open-owner is confirmed; I/O only within the share
   reservation of the state named *)
Theorem stateid_scope_open : forall sq other allow c s o,
  get_oofs sq other allow c s = inl o ->
  find_live_oofs other s = Some o /\ c = CurLeaf (of_handle o) /\ sq = of_seq o /\ mask_empty (of_sa o) = false
  /\ (allow = false -> exists oo, find_oos (of_client o, of_owner o) s = Some oo /\ oo_confirmed oo = true).
Proof. exact open_stateid_scope. Qed.
Print Assumptions stateid_scope_open.

Theorem stateid_scope_lock : forall sq other c s lf,
  get_lofs sq other c s = inl lf ->
  find_lofs other s = Some lf /\ sq = lf_seq lf
  /\ exists o, find_oofs (lf_oofs lf) s = Some o /\ c = CurLeaf (of_handle o).
Proof. exact lock_stateid_scope. Qed.
Print Assumptions stateid_scope_lock.

Theorem stateid_scope_io : forall g t c k sid openerr ioerr s s' sq other,
  internalize sid = IsReg sq other ->
  do_io g t c k sid openerr ioerr s = (s', RpParkedIo) ->
  (exists o, get_oofs sq other false c (enter t s) = inl o /\ mask_subset (io_access k) (of_sa o) = true)
  \/ (exists lf, get_lofs sq other c (enter t s) = inl lf /\ mask_subset (io_access k) (lf_sa lf) = true).
Proof. exact io_stateid_scope. Qed.
Print Assumptions stateid_scope_io.

(* ---- the lease: a client is expired only once its lease has really lapsed ------
   Full statement (NOT proved; the monitor rule Spec.lease_step, which Corr.v
   evaluates on the implementation's trace, holds on every trace of the model):

     Theorem lease_monitor_holds_on_model : forall evs,
       Spec.lease_trace_ok (Spec.model_trace init evs) = true.

   i.e. on every history a client confirmation leaves the model's tables only
   (a) replaced by a SETCLIENTID_CONFIRM of the same client, or (b) when the
   time the monitor last heard of it (start of its last accepted RENEW /
   SETCLIENTID_CONFIRM / OPEN / owner-sequenced operation / LOCKT /
   RELEASE_LOCKOWNER / READ, WRITE, SETATTR with a regular state ID, or the
   return of its parked call) is more than a lease before the clock, and never
   while one of its calls is parked in the file system.
   Proved below, for one critical section in an arbitrary state, are the facts
   of the model this rests on (..._partial); what is missing is the induction
   over histories linking the monitor's bookkeeping to cf_lastseen / cf_hold
   (docs/areas/Nfs40.md).  Examples.lease_io_keeps_client and
   Examples.lease_rule_rejects_early_expiry evaluate the rule on model traces. *)

(* enter() discards a client confirmation only if its lastSeen is more than a
   lease period before the program's clock *)
Theorem expiry_only_after_lease_partial : forall t s short,
  (exists c, In c (st_confs s) /\ cf_short c = short) ->
  (forall c, In c (st_confs (enter t s)) -> cf_short c <> short) ->
  exists c, In c (st_confs s) /\ cf_short c = short /\ (cf_lastseen c + lease < st_now (enter t s))%Z.
Proof. exact ProofsLease.enter_expires_only_lapsed. Qed.
Print Assumptions expiry_only_after_lease_partial.

(* the program's clock after enter() is at least the clock reading the critical
   section started with (the monitor's lower bound of the recorded lastSeen) *)
Theorem enter_clock_monotone : forall t s, (t <= st_now (enter t s))%Z /\ (st_now s <= st_now (enter t s))%Z.
Proof. exact ProofsLease.enter_clock. Qed.
Print Assumptions enter_clock_monotone.

(* release() of the last hold stamps lastSeen with the program's clock *)
Theorem release_records_now : forall short s c, find_conf short s = Some c -> cf_hold c = 1 ->
  exists c', find_conf short (release short s) = Some c' /\ cf_hold c' = 0 /\ cf_lastseen c' = st_now s.
Proof. exact ProofsLease.release_records_now. Qed.
Print Assumptions release_records_now.

(* READ / WRITE / SETATTR with a regular state ID: the first critical section
   leaves the client held (not idle: enter() cannot expire it) for the call ... *)
Theorem io_pins_client : forall g t c k sid openerr ioerr s s' sq other,
  internalize sid = IsReg sq other ->
  do_io g t c k sid openerr ioerr s = (s', RpParkedIo) ->
  exists oother client, In (g, PIo oother client (io_access k)) (st_pending s')
    /\ forall cf0, find_conf client (enter t s) = Some cf0 ->
         exists cf, find_conf client s' = Some cf /\ cf_hold cf = cf_hold cf0 + 1.
Proof. exact ProofsLease.io_pins_client. Qed.
Print Assumptions io_pins_client.

(* ... and the return of the call, when it drops the last hold, renews the
   lease with a clock reading >= the one the return carried *)
Theorem io_return_renews_lease : forall g t st s other client cloned cf0,
  find_by (fun p => fst p =? g) (st_pending s) = Some (g, PIo other client cloned) ->
  find_conf client (enter t s) = Some cf0 -> cf_hold cf0 = 1 ->
  exists cf, find_conf client (fst (do_io_ret g t st s)) = Some cf /\ cf_hold cf = 0
             /\ (t <= cf_lastseen cf)%Z /\ cf_lastseen cf = st_now (fst (do_io_ret g t st s)).
Proof. exact ProofsLease.io_return_renews_lease. Qed.
Print Assumptions io_return_renews_lease.
