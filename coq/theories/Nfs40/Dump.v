(* The observable projection of the model state: what the verif hook
   VerifNfs40Dump shows of the real nfs40Program, in canonical order. *)
From VF Require Export Nfs40.Model.
Open Scope N_scope.

Record dlock := mkDlock { dl_start : N; dl_end : N; dl_client : N; dl_key : N; dl_excl : bool;
                          dl_cur : bool (* owner pointer is the lock-owner object currently registered under (client,key) *) }.
Record dlos := mkDlos { dlo_client : N; dlo_key : N; dlo_lastseq : N; dlo_last : option cached }.
Record dpfile := mkDpfile { dp_handle : N; dp_use : N; dp_locks : list dlock }.
Record dump := mkDump {
  d_now : Z;
  d_confs : list conf;            (* sorted by short id *)
  d_confirmed : list (N * N);     (* sorted by long id *)
  d_idle : list N;                (* list order *)
  d_oos : list oos;               (* sorted by (client, key) *)
  d_unused : list (N * N);        (* list order *)
  d_oofs : list oofs;             (* openOwnerFilesByOther, sorted by other *)
  d_los : list dlos;              (* sorted by (client, key) *)
  d_lofs : list lofs;             (* sorted by other *)
  d_pool : list dpfile }.         (* sorted by handle *)

Fixpoint insert_by {A} (key : A -> N) (x : A) (l : list A) : list A :=
  match l with
  | [] => [x]
  | y :: tl => if key x <=? key y then x :: l else y :: insert_by key x tl
  end.
Definition sort_by {A} (key : A -> N) (l : list A) : list A := fold_right (insert_by key) [] l.
Definition key2 (a b : N) : N := N.shiftl a 64 + b.

Definition dlock_of (s : state) (l : LS.lock) : dlock :=
  match find_by (fun o => lo_id o =? LS.lowner l) (st_los s) with
  | Some o => mkDlock (LS.lstart l) (LS.lend l) (lo_client o) (lo_key o)
                      (match LS.ltyp l with LS.Exclusive => true | _ => false end) true
  | None => mkDlock (LS.lstart l) (LS.lend l) 0 0
                    (match LS.ltyp l with LS.Exclusive => true | _ => false end) false
  end.

Definition dump_of (s : state) : dump :=
  mkDump (st_now s)
    (sort_by cf_short (st_confs s))
    (sort_by fst (st_confirmed s))
    (st_idle s)
    (sort_by (fun o => key2 (oo_client o) (oo_key o)) (st_oos s))
    (st_unused s)
    (sort_by of_other (filter of_live (st_oofs s)))
    (sort_by (fun l => key2 (dlo_client l) (dlo_key l))
             (map (fun l => mkDlos (lo_client l) (lo_key l) (lo_lastseq l) (lo_last l)) (st_los s)))
    (sort_by lf_other (st_lofs s))
    (sort_by dp_handle (map (fun p => mkDpfile (pf_handle p) (pf_use p) (map (dlock_of s) (pf_locks p))) (st_pool s))).

(* ---- decidable equality on dumps ---------------------------------------- *)
Fixpoint list_eqb {A} (eqb : A -> A -> bool) (a b : list A) : bool :=
  match a, b with
  | [], [] => true
  | x :: a', y :: b' => eqb x y && list_eqb eqb a' b'
  | _, _ => false
  end.
Definition opt_eqb {A} (eqb : A -> A -> bool) (a b : option A) : bool :=
  match a, b with None, None => true | Some x, Some y => eqb x y | _, _ => false end.
Definition opres_eqb (a b : opres) : bool :=
  match a, b with
  | ResStatus x, ResStatus y => x =? y
  | ResSetClientId a1 a2, ResSetClientId b1 b2 => (a1 =? b1) && (a2 =? b2)
  | ResOpen a1 a2 a3, ResOpen b1 b2 b3 => (a1 =? b1) && (a2 =? b2) && Bool.eqb a3 b3
  | ResStateid a1 a2, ResStateid b1 b2 => (a1 =? b1) && (a2 =? b2)
  | ResDenied a1 a2 a3 a4 a5, ResDenied b1 b2 b3 b4 b5 =>
      (a1 =? b1) && (a2 =? b2) && (a3 =? b3) && (a4 =? b4) && (a5 =? b5)
  | _, _ => false
  end.
Definition rkind_eqb (a b : rkind) : bool :=
  match a, b with
  | KOpen, KOpen | KOpenConfirm, KOpenConfirm | KOpenDowngrade, KOpenDowngrade
  | KClose, KClose | KLock, KLock | KLocku, KLocku => true
  | _, _ => false
  end.
Definition cached_eqb (a b : cached) : bool :=
  rkind_eqb (ca_kind a) (ca_kind b) && opres_eqb (ca_res a) (ca_res b) && opt_eqb N.eqb (ca_closed a) (ca_closed b).
Definition conf_eqb (a b : conf) : bool :=
  (cf_short a =? cf_short b) && (cf_sverf a =? cf_sverf b) && (cf_long a =? cf_long b)
  && (cf_cverf a =? cf_cverf b) && (cf_lastseen a =? cf_lastseen b)%Z && (cf_hold a =? cf_hold b).
Definition oos_eqb (a b : oos) : bool :=
  (oo_client a =? oo_client b) && (oo_key a =? oo_key b) && Bool.eqb (oo_confirmed a) (oo_confirmed b)
  && (oo_lastseq a =? oo_lastseq b) && opt_eqb cached_eqb (oo_last a) (oo_last b)
  && Bool.eqb (oo_intx a) (oo_intx b) && (oo_lastused a =? oo_lastused b)%Z.
Definition oofs_eqb (a b : oofs) : bool :=
  (of_other a =? of_other b) && (of_seq a =? of_seq b) && (of_client a =? of_client b)
  && (of_owner a =? of_owner b) && (of_handle a =? of_handle b) && mask_eqb (of_sa a) (of_sa b)
  && (of_rd a =? of_rd b) && (of_wr a =? of_wr b) && Bool.eqb (of_live a) (of_live b).
Definition dlos_eqb (a b : dlos) : bool :=
  (dlo_client a =? dlo_client b) && (dlo_key a =? dlo_key b) && (dlo_lastseq a =? dlo_lastseq b)
  && opt_eqb cached_eqb (dlo_last a) (dlo_last b).
Definition lofs_eqb (a b : lofs) : bool :=
  (lf_other a =? lf_other b) && (lf_seq a =? lf_seq b) && (lf_client a =? lf_client b)
  && (lf_lokey a =? lf_lokey b) && (lf_oofs a =? lf_oofs b) && mask_eqb (lf_sa a) (lf_sa b)
  && (lf_count a =? lf_count b)%Z.
Definition dlock_eqb (a b : dlock) : bool :=
  (dl_start a =? dl_start b) && (dl_end a =? dl_end b) && (dl_client a =? dl_client b)
  && (dl_key a =? dl_key b) && Bool.eqb (dl_excl a) (dl_excl b) && Bool.eqb (dl_cur a) (dl_cur b).
Definition dpfile_eqb (a b : dpfile) : bool :=
  (dp_handle a =? dp_handle b) && (dp_use a =? dp_use b) && list_eqb dlock_eqb (dp_locks a) (dp_locks b).

(* first component of the dump that differs ("" = equal) *)
Definition dump_diff (a b : dump) : string :=
  if negb (d_now a =? d_now b)%Z then "now"
  else if negb (list_eqb conf_eqb (d_confs a) (d_confs b)) then "confirmations"
  else if negb (list_eqb pair_eqb (d_confirmed a) (d_confirmed b)) then "confirmed"
  else if negb (list_eqb N.eqb (d_idle a) (d_idle b)) then "idle-list"
  else if negb (list_eqb oos_eqb (d_oos a) (d_oos b)) then "open-owners"
  else if negb (list_eqb pair_eqb (d_unused a) (d_unused b)) then "unused-list"
  else if negb (list_eqb oofs_eqb (d_oofs a) (d_oofs b)) then "open-owner-files"
  else if negb (list_eqb dlos_eqb (d_los a) (d_los b)) then "lock-owners"
  else if negb (list_eqb lofs_eqb (d_lofs a) (d_lofs b)) then "lock-owner-files"
  else if negb (list_eqb dpfile_eqb (d_pool a) (d_pool b)) then "pool"
  else "".
Definition dump_eqb (a b : dump) : bool := String.eqb (dump_diff a b) "".

Definition empty_dump (now : Z) : dump := mkDump now [] [] [] [] [] [] [] [] [].
Definition dump_is_empty (d : dump) : bool := dump_eqb d (empty_dump (d_now d)).
