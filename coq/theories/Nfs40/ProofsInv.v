(* C18 for the NFSv4.0 model: accounting invariants, by induction over events.
   Part 1: definitions and the primitives that change share counts. *)
From VF Require Import Nfs40.Model.
From Coq Require Import Lia ZifyBool ZifyN ZifyNat.
Open Scope N_scope.

(* ---- generic list facts ------------------------------------------------------ *)
Lemma upd_by_absent : forall {A} (key : A -> N) (k : N) (f : A -> A) (l : list A),
  (forall y, In y l -> key y <> k) -> upd_by (fun x => key x =? k) f l = l.
Proof.
  intros A key k f l. induction l as [|y tl IH]; intros H; [reflexivity|]. simpl.
  destruct (key y =? k) eqn:E.
  - apply N.eqb_eq in E. exfalso. apply (H y); [left; reflexivity|assumption].
  - f_equal. apply IH. intros. apply H. right. assumption.
Qed.

Lemma map_absent : forall {A} (key : A -> N) (k : N) (f : A -> A) (l : list A),
  (forall y, In y l -> key y <> k) ->
  map (fun y => if key y =? k then f y else y) l = l.
Proof.
  intros A key k f l. induction l as [|y tl IH]; intros H; [reflexivity|]. simpl.
  destruct (key y =? k) eqn:E.
  - apply N.eqb_eq in E. exfalso. apply (H y); [left; reflexivity|assumption].
  - f_equal. apply IH. intros. apply H. right. assumption.
Qed.

Lemma NoDup_key_absent : forall {A} (key : A -> N) (x : A) (tl : list A),
  ~ In (key x) (map key tl) -> forall y, In y tl -> key y <> key x.
Proof.
  intros A key x tl Hn y Hin Heq. apply Hn. apply in_map_iff. exists y. split; assumption.
Qed.

Lemma upd_by_map : forall {A} (key : A -> N) (k : N) (f : A -> A) (l : list A),
  NoDup (map key l) ->
  upd_by (fun x => key x =? k) f l = map (fun x => if key x =? k then f x else x) l.
Proof.
  intros A key k f l. induction l as [|x tl IH]; intros Hnd; simpl; [reflexivity|].
  inversion Hnd as [|? ? Hnot Hnd']; subst.
  destruct (key x =? k) eqn:E.
  - f_equal. apply N.eqb_eq in E. subst k. symmetry. apply map_absent.
    apply NoDup_key_absent. assumption.
  - f_equal. apply IH; assumption.
Qed.

Lemma map_key_upd : forall {A} (key : A -> N) (g : A -> A) (l : list A),
  (forall x, key (g x) = key x) -> map key (map g l) = map key l.
Proof. intros. rewrite map_map. apply map_ext. assumption. Qed.

Lemma find_by_In : forall {A} (p : A -> bool) (l : list A) x, find_by p l = Some x -> In x l /\ p x = true.
Proof.
  intros A p l. induction l as [|y tl IH]; simpl; intros x H; [discriminate|].
  destruct (p y) eqn:E.
  - inversion H; subst. split; [left; reflexivity|assumption].
  - destruct (IH _ H). split; [right|]; assumption.
Qed.

Lemma find_by_None : forall {A} (p : A -> bool) (l : list A), find_by p l = None -> forall x, In x l -> p x = false.
Proof.
  intros A p l. induction l as [|y tl IH]; simpl; intros H x Hin; [contradiction|].
  destruct (p y) eqn:E; [discriminate|]. destruct Hin as [->|Hin]; [assumption|]. apply IH; assumption.
Qed.

Lemma In_del_by : forall {A} (p : A -> bool) (l : list A) x, In x (del_by p l) <-> In x l /\ p x = false.
Proof.
  intros. unfold del_by. rewrite filter_In. rewrite Bool.negb_true_iff. reflexivity.
Qed.

Lemma NoDup_map_filter : forall {A B} (f : A -> B) (p : A -> bool) (l : list A),
  NoDup (map f l) -> NoDup (map f (filter p l)).
Proof.
  intros A B f p l. induction l as [|x tl IH]; simpl; intros H; [constructor|].
  inversion H as [|? ? Hn Hd]; subst. destruct (p x); simpl.
  - constructor; [|apply IH; assumption]. intro Hin. apply Hn.
    apply in_map_iff in Hin. destruct Hin as [y [Hy Hin]]. apply filter_In in Hin.
    apply in_map_iff. exists y. tauto.
  - apply IH; assumption.
Qed.

Lemma NoDup_app_singleton : forall {A} (l : list A) x, NoDup l -> ~ In x l -> NoDup (l ++ [x]).
Proof.
  intros A l x. induction l as [|y tl IH]; intros Hnd Hn; simpl; [constructor; [intros []|constructor]|].
  inversion Hnd as [|? ? Hy Hd]; subst. constructor.
  - intro Hin. apply in_app_or in Hin. destruct Hin as [Hin | [<- | []]]; [contradiction|]. apply Hn. left. reflexivity.
  - apply IH; [assumption|]. intro. apply Hn. right. assumption.
Qed.

Definition cntb {A} (p : A -> bool) (l : list A) : Z := Z.of_N (count_by p l).

Lemma cntb_nil : forall {A} (p : A -> bool), cntb p [] = 0%Z.
Proof. reflexivity. Qed.

Lemma cntb_cons : forall {A} (p : A -> bool) x l, cntb p (x :: l) = ((if p x then 1 else 0) + cntb p l)%Z.
Proof.
  intros. unfold cntb, count_by. cbn [filter]. destruct (p x); cbn [List.length]; rewrite ?Nat2N.inj_succ; lia.
Qed.

Lemma cntb_app : forall {A} (p : A -> bool) l1 l2, cntb p (l1 ++ l2) = (cntb p l1 + cntb p l2)%Z.
Proof.
  intros A p l1 l2. induction l1 as [|x tl IH]; [rewrite cntb_nil; simpl; lia|].
  simpl app. rewrite !cntb_cons, IH. lia.
Qed.

Lemma cntb_nonneg : forall {A} (p : A -> bool) l, (0 <= cntb p l)%Z.
Proof. intros. unfold cntb. lia. Qed.

Lemma cntb_ext : forall {A} (p q : A -> bool) l, (forall x, In x l -> p x = q x) -> cntb p l = cntb q l.
Proof.
  intros A p q l. induction l as [|x tl IH]; intros H; [reflexivity|].
  rewrite !cntb_cons, (H x (or_introl eq_refl)), IH; [reflexivity|]. intros. apply H. right. assumption.
Qed.

Lemma cntb_zero : forall {A} (p : A -> bool) l, (forall x, In x l -> p x = false) -> cntb p l = 0%Z.
Proof.
  intros A p l. induction l as [|x tl IH]; intros H; [reflexivity|].
  rewrite cntb_cons, (H x (or_introl eq_refl)), IH; [reflexivity|]. intros. apply H. right. assumption.
Qed.

(* removing the unique element with key k *)
Lemma cntb_del_key : forall {A} (key : A -> N) (k : N) (p : A -> bool) (l : list A) x,
  NoDup (map key l) -> In x l -> key x = k ->
  cntb p (del_by (fun y => key y =? k) l) = (cntb p l - (if p x then 1 else 0))%Z.
Proof.
  intros A key k p l x. induction l as [|y tl IH]; intros Hnd Hin Hk; [contradiction|].
  inversion Hnd as [|? ? Hn Hd]; subst. unfold del_by in *. simpl.
  destruct Hin as [->|Hin].
  - rewrite N.eqb_refl. simpl. rewrite cntb_cons.
    assert (E : forall tl', (forall y, In y tl' -> key y <> key x) -> filter (fun x0 => negb (key x0 =? key x)) tl' = tl').
    { induction tl' as [|z tl' IH2]; simpl; intros Hz; [reflexivity|].
      destruct (key z =? key x) eqn:E.
      - apply N.eqb_eq in E. exfalso. apply (Hz z); [left; reflexivity|assumption].
      - simpl. f_equal. apply IH2. intros. apply Hz. right. assumption. }
    rewrite (E tl (NoDup_key_absent key x tl Hn)). lia.
  - destruct (key y =? key x) eqn:E.
    + apply N.eqb_eq in E. exfalso. apply Hn. apply in_map_iff. exists x. split; [congruence|assumption].
    + simpl. rewrite !cntb_cons. rewrite IH by auto. lia.
Qed.

Lemma cntb_del_absent : forall {A} (q p : A -> bool) (l : list A),
  (forall x, In x l -> q x = true -> p x = false) -> cntb p (del_by q l) = cntb p l.
Proof.
  intros A q p l. induction l as [|y tl IH]; intros H; [reflexivity|].
  unfold del_by in *. simpl. destruct (q y) eqn:E; simpl.
  - rewrite cntb_cons, (H y (or_introl eq_refl) E). rewrite IH; [lia|]. intros. apply H; [right|]; assumption.
  - rewrite !cntb_cons, IH; [reflexivity|]. intros. apply H; [right|]; assumption.
Qed.

(* updating the unique element with key k *)
Lemma cntb_map_key : forall {A} (key : A -> N) (k : N) (f : A -> A) (p : A -> bool) (l : list A) x,
  NoDup (map key l) -> In x l -> key x = k ->
  cntb p (map (fun y => if key y =? k then f y else y) l)
  = (cntb p l - (if p x then 1 else 0) + (if p (f x) then 1 else 0))%Z.
Proof.
  intros A key k f p l x. induction l as [|y tl IH]; intros Hnd Hin Hk; [contradiction|].
  inversion Hnd as [|? ? Hn Hd]; subst. simpl. rewrite !cntb_cons.
  destruct Hin as [->|Hin].
  - rewrite N.eqb_refl.
    rewrite (map_absent key (key x) f tl (NoDup_key_absent key x tl Hn)). lia.
  - destruct (key y =? key x) eqn:E.
    + apply N.eqb_eq in E. exfalso. apply Hn. apply in_map_iff. exists x. split; [congruence|assumption].
    + rewrite IH by auto. lia.
Qed.

(* ---- the accounting view of a state -------------------------------------------- *)
Definition bit (rd : bool) (m : mask) : bool := if rd then m_r m else m_w m.
Definition cnt (rd : bool) (o : oofs) : N := if rd then of_rd o else of_wr o.
Definition b2z (b : bool) : Z := if b then 1%Z else 0%Z.

Definition lofs_on (other : N) (rd : bool) (l : lofs) : bool := (lf_oofs l =? other) && bit rd (lf_sa l).
Definition io_on (other : N) (rd : bool) (p : N * pending) : bool :=
  match snd p with PIo o _ m => (o =? other) && bit rd m | _ => false end.

(* holders of an access bit of an open-owner file: the open state itself,
   lock-owner files that cloned it, in-flight I/O that cloned it *)
Definition expected (s : state) (other : N) (sa : mask) (rd : bool) : Z :=
  (b2z (bit rd sa) + cntb (lofs_on other rd) (st_lofs s) + cntb (io_on other rd) (st_pending s))%Z.

(* share counts are exact, except for object [other] whose counts are too
   high by [dz] (a share reservation in transit) *)
Definition Kd (s : state) (other : N) (dz : bool -> Z) : Prop :=
  forall o rd, In o (st_oofs s) ->
    Z.of_N (cnt rd o) = (expected s (of_other o) (of_sa o) rd + (if N.eqb (of_other o) other then dz rd else 0))%Z.
Definition K (s : state) : Prop := Kd s 0 (fun _ => 0%Z).

Definition U (s : state) : Prop :=
  NoDup (map of_other (st_oofs s)) /\ NoDup (map lf_other (st_lofs s))
  /\ NoDup (map fst (st_pending s)).

(* everything named by a table was drawn from the generator before *)
Definition Fr (s : state) : Prop :=
  (forall o, In o (st_oofs s) -> of_other o < st_rng s)
  /\ (forall l, In l (st_lofs s) -> lf_other l < st_rng s /\ lf_oofs l < st_rng s)
  /\ (forall p, In p (st_pending s) -> match snd p with PIo o _ _ => o < st_rng s | _ => True end).

Definition holder (h : N) (rd : bool) (o : oofs) : bool := (of_handle o =? h) && (0 <? cnt rd o).
Definition call_net (h : N) (rd : bool) (c : leafcall) : Z :=
  if (lc_h c =? h) && bit rd (lc_mask c) then (if lc_open c then 1 else -1)%Z else 0%Z.
Fixpoint calls_net (h : N) (rd : bool) (l : list leafcall) : Z :=
  match l with [] => 0%Z | c :: tl => (call_net h rd c + calls_net h rd tl)%Z end.
Definition pend_net (h : N) (rd : bool) (p : N * pending) : Z :=
  match snd p with POpen _ _ _ _ _ ll => calls_net h rd ll | _ => 0%Z end.
Fixpoint pends_net (h : N) (rd : bool) (l : list (N * pending)) : Z :=
  match l with [] => 0%Z | p :: tl => (pend_net h rd p + pends_net h rd tl)%Z end.

(* opens minus closes the leaf has seen = Phi, once the calls collected in
   st_ll (and in the leavesToClose of parked OPENs) have been made *)
Definition Phi (s : state) (h : N) (rd : bool) : Z :=
  (cntb (holder h rd) (st_oofs s) - calls_net h rd (st_ll s) - pends_net h rd (st_pending s))%Z.

Lemma calls_net_app : forall h rd a b, calls_net h rd (a ++ b) = (calls_net h rd a + calls_net h rd b)%Z.
Proof. intros h rd a b. induction a as [|c tl IH]; simpl; [reflexivity|]. rewrite IH. lia. Qed.

Lemma calls_net_rev : forall h rd a, calls_net h rd (rev a) = calls_net h rd a.
Proof.
  intros h rd a. induction a as [|c tl IH]; simpl; [reflexivity|].
  rewrite calls_net_app, IH. simpl. lia.
Qed.

Lemma pends_net_app : forall h rd a b, pends_net h rd (a ++ b) = (pends_net h rd a + pends_net h rd b)%Z.
Proof. intros h rd a b. induction a as [|c tl IH]; simpl; [reflexivity|]. rewrite IH. lia. Qed.

Record Inv (s : state) : Prop := mkInv { inv_K : K s; inv_U : U s; inv_F : Fr s }.

(* ---- states that agree on the accounting view ------------------------------------ *)
Definition view_eq (s s' : state) : Prop :=
  st_oofs s' = st_oofs s /\ st_lofs s' = st_lofs s /\ st_pending s' = st_pending s
  /\ st_ll s' = st_ll s /\ st_rng s' = st_rng s.

Lemma view_eq_refl : forall s, view_eq s s.
Proof. intros. repeat split. Qed.

Lemma view_eq_trans : forall a b c, view_eq a b -> view_eq b c -> view_eq a c.
Proof. unfold view_eq. intros a b c (H1&H2&H3&H4&H5) (G1&G2&G3&G4&G5). repeat split; congruence. Qed.

Lemma view_eq_Kd : forall s s' other dz, view_eq s s' -> Kd s other dz -> Kd s' other dz.
Proof.
  unfold view_eq, Kd, expected. intros s s' other dz (H1&H2&H3&H4&H5) H o rd Hin.
  rewrite H1 in Hin. rewrite H2, H3. apply H. assumption.
Qed.

Lemma view_eq_U : forall s s', view_eq s s' -> U s -> U s'.
Proof. unfold view_eq, U. intros s s' (H1&H2&H3&_). rewrite H1, H2, H3. tauto. Qed.

Lemma view_eq_Fr : forall s s', view_eq s s' -> Fr s -> Fr s'.
Proof. unfold view_eq, Fr. intros s s' (H1&H2&H3&H4&H5). rewrite H1, H2, H3, H5. tauto. Qed.

Lemma view_eq_Phi : forall s s' h rd, view_eq s s' -> Phi s' h rd = Phi s h rd.
Proof. unfold view_eq, Phi. intros s s' h rd (H1&H2&H3&H4&H5). rewrite H1, H3, H4. reflexivity. Qed.

Lemma view_eq_Inv : forall s s', view_eq s s' -> Inv s -> Inv s'.
Proof.
  intros s s' H [k u f]. constructor.
  - eapply view_eq_Kd; eassumption.
  - eapply view_eq_U; eassumption.
  - eapply view_eq_Fr; eassumption.
Qed.

(* operations that do not touch the view *)
Lemma view_panic : forall s, view_eq s (panic s). Proof. intros. repeat split. Qed.
Lemma view_w_now : forall s v, view_eq s (w_now s v). Proof. intros. repeat split. Qed.
Lemma view_w_next_id : forall s v, view_eq s (w_next_id s v). Proof. intros. repeat split. Qed.
Lemma view_w_confs : forall s v, view_eq s (w_confs s v). Proof. intros. repeat split. Qed.
Lemma view_w_confirmed : forall s v, view_eq s (w_confirmed s v). Proof. intros. repeat split. Qed.
Lemma view_w_idle : forall s v, view_eq s (w_idle s v). Proof. intros. repeat split. Qed.
Lemma view_w_oos : forall s v, view_eq s (w_oos s v). Proof. intros. repeat split. Qed.
Lemma view_w_unused : forall s v, view_eq s (w_unused s v). Proof. intros. repeat split. Qed.
Lemma view_w_los : forall s v, view_eq s (w_los s v). Proof. intros. repeat split. Qed.
Lemma view_w_pool : forall s v, view_eq s (w_pool s v). Proof. intros. repeat split. Qed.

Ltac view_tac :=
  repeat first
    [ apply view_eq_refl
    | match goal with
      | |- view_eq _ (match ?x with _ => _ end) => destruct x
      | |- view_eq _ (if ?x then _ else _) => destruct x
      end
    | (eapply view_eq_trans; [|first [apply view_panic|apply view_w_now|apply view_w_next_id|apply view_w_confs
        |apply view_w_confirmed|apply view_w_idle|apply view_w_oos|apply view_w_unused|apply view_w_los|apply view_w_pool]]) ].

Lemma view_upd_conf : forall sh f s, view_eq s (upd_conf sh f s).
Proof. intros. unfold upd_conf. apply view_w_confs. Qed.
Lemma view_upd_oos : forall ck f s, view_eq s (upd_oos ck f s).
Proof. intros. unfold upd_oos. apply view_w_oos. Qed.
Lemma view_upd_los : forall lk f s, view_eq s (upd_los lk f s).
Proof. intros. unfold upd_los. apply view_w_los. Qed.
Lemma view_upd_pfile : forall h f s, view_eq s (upd_pfile h f s).
Proof. intros. unfold upd_pfile. apply view_w_pool. Qed.

Lemma view_hold : forall sh s, view_eq s (hold sh s).
Proof.
  intros. unfold hold. destruct (find_conf sh s); [|apply view_panic].
  eapply view_eq_trans; [|apply view_upd_conf]. destruct (cf_hold c =? 0); [apply view_w_idle|apply view_eq_refl].
Qed.
Lemma view_release : forall sh s, view_eq s (release sh s).
Proof.
  intros. unfold release. destruct (find_conf sh s); [|apply view_panic].
  destruct (cf_hold c =? 0); [apply view_panic|]. destruct (cf_hold c =? 1).
  - eapply view_eq_trans; [apply view_upd_conf|apply view_w_idle].
  - apply view_upd_conf.
Qed.
Lemma view_pool_open : forall h s, view_eq s (pool_open h s).
Proof. intros. unfold pool_open. destruct (find_pfile h s); [apply view_upd_pfile|apply view_w_pool]. Qed.
Lemma view_pool_close : forall h s, view_eq s (pool_close h s).
Proof.
  intros. unfold pool_close. destruct (find_pfile h s); [|apply view_panic].
  destruct (pf_use p <=? 1); [apply view_w_pool|apply view_upd_pfile].
Qed.
Lemma view_set_oos_last : forall ck v s, view_eq s (set_oos_last ck v s).
Proof. intros. apply view_upd_oos. Qed.
Lemma view_set_oos_intx : forall ck v s, view_eq s (set_oos_intx ck v s).
Proof. intros. apply view_upd_oos. Qed.

(* ---- changing one open-owner file object ------------------------------------------ *)
Definition upd_at (other : N) (f : oofs -> oofs) (l : list oofs) : list oofs :=
  map (fun x => if of_other x =? other then f x else x) l.

Lemma upd_oofs_at : forall other f s,
  U s -> st_oofs (upd_oofs other f s) = upd_at other f (st_oofs s).
Proof.
  intros other f s [Hu _]. unfold upd_oofs, upd_at. simpl.
  apply (upd_by_map of_other other f (st_oofs s) Hu).
Qed.

Lemma NoDup_key_eq : forall {A} (key : A -> N) (l : list A) x y,
  NoDup (map key l) -> In x l -> In y l -> key x = key y -> x = y.
Proof.
  intros A key l. induction l as [|z tl IH]; intros x y Hnd Hx Hy Hk; [contradiction|].
  inversion Hnd as [|? ? Hn Hd]; subst.
  destruct Hx as [->|Hx]; destruct Hy as [->|Hy]; auto.
  - exfalso. apply Hn. apply in_map_iff. exists y. split; [symmetry|]; assumption.
  - exfalso. apply Hn. apply in_map_iff. exists x. split; assumption.
Qed.

Lemma Kd_change : forall s s' other f dz dz',
  st_oofs s' = upd_at other f (st_oofs s) ->
  (forall x, of_other (f x) = of_other x) ->
  (forall k sa rd, k <> other -> expected s' k sa rd = expected s k sa rd) ->
  Kd s other dz ->
  (forall o rd, In o (st_oofs s) -> of_other o = other ->
      Z.of_N (cnt rd o) = (expected s other (of_sa o) rd + dz rd)%Z ->
      Z.of_N (cnt rd (f o)) = (expected s' other (of_sa (f o)) rd + dz' rd)%Z) ->
  Kd s' other dz'.
Proof.
  intros s s' other f dz dz' Hs Hk He HK Hf o' rd Hin.
  rewrite Hs in Hin. unfold upd_at in Hin. apply in_map_iff in Hin. destruct Hin as [x [Hx Hin]].
  specialize (HK x rd Hin).
  destruct (of_other x =? other) eqn:E.
  - subst o'. rewrite Hk, E. apply N.eqb_eq in E. rewrite E in *. apply Hf; assumption.
  - subst o'. rewrite E. apply N.eqb_neq in E. rewrite He by assumption. exact HK.
Qed.

Lemma Phi_change : forall s s' other o f calls h rd,
  U s -> In o (st_oofs s) -> of_other o = other ->
  st_oofs s' = upd_at other f (st_oofs s) ->
  st_ll s' = calls ++ st_ll s -> st_pending s' = st_pending s ->
  calls_net h rd calls = (b2z (holder h rd (f o)) - b2z (holder h rd o))%Z ->
  Phi s' h rd = Phi s h rd.
Proof.
  intros s s' other o f calls h rd [Hu _] Hin Hk Hs Hl Hp Hc.
  unfold Phi. rewrite Hs, Hl, Hp, calls_net_app. unfold upd_at.
  rewrite (cntb_map_key of_other other f (holder h rd) (st_oofs s) o Hu Hin Hk).
  unfold b2z in Hc. destruct (holder h rd o), (holder h rd (f o)); lia.
Qed.

Lemma U_change : forall s s' other f,
  st_oofs s' = upd_at other f (st_oofs s) -> (forall x, of_other (f x) = of_other x) ->
  st_lofs s' = st_lofs s -> st_pending s' = st_pending s -> U s -> U s'.
Proof.
  intros s s' other f Hs Hk Hl Hp [H1 [H2 H3]]. split; [|split; [rewrite Hl; assumption|rewrite Hp; assumption]].
  rewrite Hs. unfold upd_at. rewrite map_map.
  erewrite map_ext; [exact H1|]. intros x. simpl. destruct (of_other x =? other); [apply Hk|reflexivity].
Qed.

Lemma Fr_change : forall s s' other f,
  st_oofs s' = upd_at other f (st_oofs s) -> (forall x, of_other (f x) = of_other x) ->
  st_lofs s' = st_lofs s -> st_pending s' = st_pending s -> st_rng s' = st_rng s -> Fr s -> Fr s'.
Proof.
  intros s s' other f Hs Hk Hl Hp Hr (F1&F2&F3). unfold Fr. rewrite Hl, Hp, Hr. split; [|split; assumption].
  intros o Hin. rewrite Hs in Hin. unfold upd_at in Hin. apply in_map_iff in Hin. destruct Hin as [x [Hx Hin]].
  subst o. destruct (of_other x =? other); [rewrite Hk|]; apply F1; assumption.
Qed.

(* ---- emit_close --------------------------------------------------------------------- *)
Lemma emit_close_view : forall h m s,
  st_oofs (emit_close h m s) = st_oofs s /\ st_lofs (emit_close h m s) = st_lofs s
  /\ st_pending (emit_close h m s) = st_pending s /\ st_rng (emit_close h m s) = st_rng s.
Proof. intros. unfold emit_close. destruct (mask_empty m); repeat split. Qed.

Lemma emit_close_ll : forall h m s, exists calls,
  st_ll (emit_close h m s) = calls ++ st_ll s /\
  forall h' rd, calls_net h' rd calls = Z.opp (b2z (N.eqb h h' && bit rd m)).
Proof.
  intros h m s. unfold emit_close. destruct (mask_empty m) eqn:E.
  - exists []. split; [reflexivity|]. intros h' rd. simpl.
    unfold mask_empty in E. destruct m as [r w]. simpl in E. destruct rd, r, w; simpl in *; try discriminate;
    rewrite ?Bool.andb_false_r; reflexivity.
  - exists [mkCall h false m]. split; [reflexivity|]. intros h' rd. simpl. unfold call_net. simpl.
    destruct ((h =? h') && bit rd m); reflexivity.
Qed.

(* ---- gc_oofs --------------------------------------------------------------------------- *)
Lemma gc_oofs_ok : forall other s dz k,
  Kd s k dz -> U s -> Fr s ->
  Kd (gc_oofs other s) k dz /\ U (gc_oofs other s) /\ Fr (gc_oofs other s)
  /\ forall h rd, Phi (gc_oofs other s) h rd = Phi s h rd.
Proof.
  intros other s dz k HK [U1 U2] (F1&F2&F3). unfold gc_oofs.
  set (q := fun o => (of_other o =? other) && negb (of_live o) && (of_rd o =? 0) && (of_wr o =? 0)).
  split; [|split; [|split]].
  - intros o rd Hin. simpl in Hin. apply In_del_by in Hin. destruct Hin as [Hin _].
    unfold expected. simpl. apply HK. assumption.
  - split; simpl; [|assumption]. unfold del_by. apply NoDup_map_filter. assumption.
  - unfold Fr. simpl. split; [|split; assumption]. intros o Hin. apply In_del_by in Hin. apply F1. tauto.
  - intros h rd. unfold Phi. simpl. f_equal. f_equal. apply cntb_del_absent.
    intros x _ Hq. unfold q in Hq. unfold holder, cnt.
    apply andb_prop in Hq. destruct Hq as [Hq Hw]. apply andb_prop in Hq. destruct Hq as [_ Hr].
    apply N.eqb_eq in Hr, Hw. destruct rd; [rewrite Hr|rewrite Hw]; rewrite Bool.andb_false_r; reflexivity.
Qed.

(* ---- oofs_release ------------------------------------------------------------------------ *)
Definition with_counts (rd wr : N) (o : oofs) : oofs :=
  mkOofs (of_other o) (of_seq o) (of_client o) (of_owner o) (of_handle o) (of_sa o) rd wr (of_live o).

Lemma Kd_absent : forall s other dz, Kd s other dz ->
  (forall o, In o (st_oofs s) -> of_other o <> other) -> K s.
Proof.
  intros s other dz H Hn o rd Hin. specialize (H o rd Hin).
  assert (E : of_other o =? other = false) by (apply N.eqb_neq; apply Hn; assumption).
  rewrite E in H. destruct (of_other o =? 0); lia.
Qed.

Lemma K_as_Kd : forall s other, K s -> Kd s other (fun _ => 0%Z).
Proof.
  intros s other H o rd Hin. specialize (H o rd Hin). destruct (of_other o =? 0); destruct (of_other o =? other); lia.
Qed.

Lemma Kd_as_K : forall s other, Kd s other (fun _ => 0%Z) -> K s.
Proof.
  intros s other H o rd Hin. specialize (H o rd Hin). destruct (of_other o =? 0); destruct (of_other o =? other); lia.
Qed.

(* releasing share reservations whose counts are positive: the debt of the
   object decreases by the released bits *)
Lemma oofs_release_gen : forall other cleared s dz,
  U s -> Fr s -> Kd s other dz ->
  (forall o rd, In o (st_oofs s) -> of_other o = other -> bit rd cleared = true -> 0 < cnt rd o) ->
  Kd (oofs_release other cleared s) other (fun rd => (dz rd - b2z (bit rd cleared))%Z)
  /\ U (oofs_release other cleared s) /\ Fr (oofs_release other cleared s)
  /\ forall h rd, Phi (oofs_release other cleared s) h rd = Phi s h rd.
Proof.
  intros other cleared s dz HU HF HK Hpos. unfold oofs_release.
  destruct (find_oofs other s) as [o|] eqn:Ef.
  - apply find_by_In in Ef. destruct Ef as [Hin Hk]. apply N.eqb_eq in Hk.
    assert (Hr : m_r cleared = true -> 0 < of_rd o) by (intro Hb; apply (Hpos o true Hin Hk Hb)).
    assert (Hw : m_w cleared = true -> 0 < of_wr o) by (intro Hb; apply (Hpos o false Hin Hk Hb)).
    set (rd' := of_rd o - (if m_r cleared then 1 else 0)).
    set (wr' := of_wr o - (if m_w cleared then 1 else 0)).
    set (zr := m_r cleared && (of_rd o =? 1)). set (zw := m_w cleared && (of_wr o =? 1)).
    assert (Er : dec_count (of_rd o) (m_r cleared) = (rd', zr, false)).
    { unfold dec_count, rd', zr. destruct (m_r cleared); [|rewrite N.sub_0_r; reflexivity].
      specialize (Hr eq_refl). destruct (of_rd o =? 0) eqn:E; [apply N.eqb_eq in E; lia|reflexivity]. }
    assert (Ew : dec_count (of_wr o) (m_w cleared) = (wr', zw, false)).
    { unfold dec_count, wr', zw. destruct (m_w cleared); [|rewrite N.sub_0_r; reflexivity].
      specialize (Hw eq_refl). destruct (of_wr o =? 0) eqn:E; [apply N.eqb_eq in E; lia|reflexivity]. }
    rewrite Er, Ew. simpl orb. cbv iota.
    set (f := fun o0 : oofs => mkOofs (of_other o0) (of_seq o0) (of_client o0) (of_owner o0) (of_handle o0) (of_sa o0) rd' wr' (of_live o0)).
    set (s1 := upd_oofs other f s).
    set (s2 := emit_close (of_handle o) (mkMask zr zw) s1).
    assert (Ho1 : st_oofs s1 = upd_at other f (st_oofs s)) by (apply upd_oofs_at; assumption).
    destruct (emit_close_view (of_handle o) (mkMask zr zw) s1) as (V1&V2&V3&V4).
    destruct (emit_close_ll (of_handle o) (mkMask zr zw) s1) as [calls [Hll Hnet]].
    change (st_lofs s1) with (st_lofs s) in V2. change (st_pending s1) with (st_pending s) in V3.
    change (st_rng s1) with (st_rng s) in V4. change (st_ll s1) with (st_ll s) in Hll.
    assert (Ho2 : st_oofs s2 = upd_at other f (st_oofs s)) by (unfold s2; rewrite V1; exact Ho1).
    assert (Hfk : forall x, of_other (f x) = of_other x) by reflexivity.
    assert (K2 : Kd s2 other (fun rd => (dz rd - b2z (bit rd cleared))%Z)).
    { eapply (Kd_change s s2 other f); try eassumption.
      - intros k sa rd _. unfold expected. unfold s2. rewrite V2, V3. reflexivity.
      - intros x rd Hx Hxk Hc. assert (x = o) by (eapply (NoDup_key_eq of_other); try eassumption; [apply HU|congruence]).
        subst x. unfold expected. unfold s2. rewrite V2, V3. unfold expected in Hc. simpl of_sa.
        destruct rd; simpl cnt; simpl cnt in Hc; simpl bit in *; unfold rd', wr', b2z in *.
        + destruct (m_r cleared); [specialize (Hr eq_refl)|]; lia.
        + destruct (m_w cleared); [specialize (Hw eq_refl)|]; lia. }
    assert (U2 : U s2) by (eapply (U_change s s2 other f); try eassumption; unfold s2; rewrite ?V2, ?V3; reflexivity).
    assert (F2 : Fr s2) by (eapply (Fr_change s s2 other f); try eassumption; unfold s2; rewrite ?V2, ?V3, ?V4; reflexivity).
    assert (P2 : forall h rd, Phi s2 h rd = Phi s h rd).
    { intros h rd. eapply (Phi_change s s2 other o f calls); try eassumption.
      rewrite Hnet. unfold holder. simpl of_handle. simpl bit.
        destruct rd; simpl cnt; unfold zr, zw, rd', wr', b2z.
        + rewrite (N.eqb_sym (of_handle o) h). destruct (h =? of_handle o); simpl; [|reflexivity].
          destruct (m_r cleared); simpl; [specialize (Hr eq_refl)|rewrite N.sub_0_r; destruct (0 <? of_rd o); reflexivity].
          destruct (of_rd o =? 1) eqn:E1; [apply N.eqb_eq in E1; rewrite E1; reflexivity|].
          apply N.eqb_neq in E1. assert (0 <? of_rd o = true) by (apply N.ltb_lt; lia).
          assert (0 <? of_rd o - 1 = true) by (apply N.ltb_lt; lia). rewrite H, H0. reflexivity.
        + rewrite (N.eqb_sym (of_handle o) h). destruct (h =? of_handle o); simpl; [|reflexivity].
          destruct (m_w cleared); simpl; [specialize (Hw eq_refl)|rewrite N.sub_0_r; destruct (0 <? of_wr o); reflexivity].
          destruct (of_wr o =? 1) eqn:E1; [apply N.eqb_eq in E1; rewrite E1; reflexivity|].
          apply N.eqb_neq in E1. assert (0 <? of_wr o = true) by (apply N.ltb_lt; lia).
          assert (0 <? of_wr o - 1 = true) by (apply N.ltb_lt; lia). rewrite H, H0. reflexivity. }
    destruct (gc_oofs_ok other s2 _ _ K2 U2 F2) as (K3&U3&F3&P3).
    split; [assumption|split; [assumption|split; [assumption|]]].
    intros h rd. rewrite P3. apply P2.
  - pose proof (find_by_None _ _ Ef) as Hn.
    split; [|split; [|split]].
    + apply (view_eq_Kd s); [apply view_panic|].
      intros o rd Hin. specialize (HK o rd Hin). specialize (Hn o Hin). simpl in Hn. rewrite Hn in *. exact HK.
    + apply (view_eq_U s); [apply view_panic|assumption].
    + apply (view_eq_Fr s); [apply view_panic|assumption].
    + intros. apply view_eq_Phi. apply view_panic.
Qed.

Lemma Kd_ext : forall s other dz dz', (forall rd, dz rd = dz' rd) -> Kd s other dz -> Kd s other dz'.
Proof. intros s other dz dz' E H o rd Hin. rewrite <- E. apply H. assumption. Qed.

Lemma Kd_pos : forall s other dz o rd, Kd s other dz -> In o (st_oofs s) -> of_other o = other ->
  (0 < dz rd + b2z (bit rd (of_sa o)))%Z -> 0 < cnt rd o.
Proof.
  intros s other dz o rd HK Hin Hk Hd. specialize (HK o rd Hin). rewrite Hk, N.eqb_refl in HK. unfold expected in HK.
  pose proof (cntb_nonneg (lofs_on other rd) (st_lofs s)). pose proof (cntb_nonneg (io_on other rd) (st_pending s)). lia.
Qed.

Lemma oofs_release_ok : forall other cleared s,
  U s -> Fr s -> Kd s other (fun rd => b2z (bit rd cleared)) ->
  Inv (oofs_release other cleared s) /\ forall h rd, Phi (oofs_release other cleared s) h rd = Phi s h rd.
Proof.
  intros other cleared s HU HF HK.
  destruct (oofs_release_gen other cleared s _ HU HF HK) as (K1&U1&F1&P1).
  - intros o rd Hin Hk Hb. eapply Kd_pos; try eassumption. simpl. rewrite Hb. unfold b2z. destruct (bit rd (of_sa o)); lia.
  - split; [|assumption]. constructor; [|assumption|assumption].
    eapply Kd_as_K. eapply Kd_ext; [|eassumption]. intros rd. simpl. lia.
Qed.

(* ---- preservation ---------------------------------------------------------------------- *)
Definition pres (f : state -> state) : Prop :=
  forall s, Inv s -> Inv (f s) /\ forall h rd, Phi (f s) h rd = Phi s h rd.

Lemma pres_id : pres (fun s => s).
Proof. intros s H. split; [assumption|reflexivity]. Qed.

Lemma pres_comp : forall f g, pres f -> pres g -> pres (fun s => g (f s)).
Proof.
  intros f g Hf Hg s H. destruct (Hf s H) as [H1 P1]. destruct (Hg (f s) H1) as [H2 P2].
  split; [assumption|]. intros. rewrite P2. apply P1.
Qed.

Lemma pres_view : forall f, (forall s, view_eq s (f s)) -> pres f.
Proof.
  intros f Hv s H. split; [eapply view_eq_Inv; [apply Hv|assumption]|]. intros. apply view_eq_Phi. apply Hv.
Qed.

Lemma pres_ext : forall f g, (forall s, f s = g s) -> pres f -> pres g.
Proof. intros f g E Hf s H. rewrite <- E. apply Hf. assumption. Qed.

Lemma pres_fold_left : forall {A} (f : state -> A -> state) (l : list A),
  (forall a, pres (fun s => f s a)) -> pres (fun s => fold_left f l s).
Proof.
  intros A f l Hf. induction l as [|a tl IH]; simpl; [apply pres_id|].
  intros s H. destruct (Hf a s H) as [H1 P1]. destruct (IH (f s a) H1) as [H2 P2].
  split; [assumption|]. intros. rewrite P2. apply P1.
Qed.

Lemma pres_if : forall (b : state -> bool) f g, pres f -> pres g -> pres (fun s => if b s then f s else g s).
Proof. intros b f g Hf Hg s H. destruct (b s); [apply Hf|apply Hg]; assumption. Qed.

(* ---- oofs_set_sa / oofs_bump_seq ----------------------------------------------------------- *)
Lemma oofs_set_sa_ok : forall other m s o dz,
  U s -> Fr s -> In o (st_oofs s) -> of_other o = other ->
  Kd s other dz ->
  Kd (oofs_set_sa other m s) other (fun rd => (dz rd + b2z (bit rd (of_sa o)) - b2z (bit rd m))%Z)
  /\ U (oofs_set_sa other m s) /\ Fr (oofs_set_sa other m s)
  /\ forall h rd, Phi (oofs_set_sa other m s) h rd = Phi s h rd.
Proof.
  intros other m s o dz HU HF Hin Hk HK. unfold oofs_set_sa.
  set (f := fun o0 : oofs => mkOofs (of_other o0) (of_seq o0) (of_client o0) (of_owner o0) (of_handle o0) m (of_rd o0) (of_wr o0) (of_live o0)).
  set (s' := upd_oofs other f s).
  assert (Ho : st_oofs s' = upd_at other f (st_oofs s)) by (apply upd_oofs_at; assumption).
  assert (Hfk : forall x, of_other (f x) = of_other x) by reflexivity.
  split; [|split; [|split]].
  - eapply (Kd_change s s' other f); try eassumption.
    + intros. reflexivity.
    + intros x rd Hx Hxk Hc. assert (x = o) by (eapply (NoDup_key_eq of_other); try eassumption; [apply HU|congruence]).
      subst x. unfold expected in *. change (st_lofs s') with (st_lofs s). change (st_pending s') with (st_pending s).
      simpl of_sa. change (cnt rd (f o)) with (cnt rd o). lia.
  - eapply (U_change s s' other f); try eassumption; reflexivity.
  - eapply (Fr_change s s' other f); try eassumption; reflexivity.
  - intros h rd. eapply (Phi_change s s' other o f []); try eassumption; try reflexivity.
    simpl. change (holder h rd (f o)) with (holder h rd o). lia.
Qed.

Lemma oofs_bump_seq_ok : forall other s k dz,
  U s -> Fr s -> Kd s k dz ->
  Kd (oofs_bump_seq other s) k dz /\ U (oofs_bump_seq other s) /\ Fr (oofs_bump_seq other s)
  /\ forall h rd, Phi (oofs_bump_seq other s) h rd = Phi s h rd.
Proof.
  intros other s k dz HU HF HK. unfold oofs_bump_seq.
  set (f := fun o0 : oofs => mkOofs (of_other o0) (next_seq (of_seq o0)) (of_client o0) (of_owner o0) (of_handle o0) (of_sa o0) (of_rd o0) (of_wr o0) (of_live o0)).
  set (s' := upd_oofs other f s).
  assert (Ho : st_oofs s' = upd_at other f (st_oofs s)) by (apply upd_oofs_at; assumption).
  assert (Hfk : forall x, of_other (f x) = of_other x) by reflexivity.
  split; [|split; [|split]].
  - intros o' rd Hin. rewrite Ho in Hin. unfold upd_at in Hin. apply in_map_iff in Hin. destruct Hin as [x [Hx Hin]].
    specialize (HK x rd Hin). unfold expected in *. change (st_lofs s') with (st_lofs s). change (st_pending s') with (st_pending s).
    subst o'. destruct (of_other x =? other); exact HK.
  - eapply (U_change s s' other f); try eassumption; reflexivity.
  - eapply (Fr_change s s' other f); try eassumption; reflexivity.
  - intros h rd. unfold Phi. change (st_ll s') with (st_ll s). change (st_pending s') with (st_pending s).
    rewrite Ho. f_equal. f_equal. unfold upd_at.
    assert (E : forall l, cntb (holder h rd) (map (fun x => if of_other x =? other then f x else x) l) = cntb (holder h rd) l).
    { induction l as [|y tl IH]; [reflexivity|]. simpl map. rewrite !cntb_cons, IH.
      destruct (of_other y =? other); reflexivity. }
    apply E.
Qed.

(* ---- oofs_clone ---------------------------------------------------------------------------- *)
Lemma oofs_clone_ok : forall other m s o,
  Inv s -> In o (st_oofs s) -> of_other o = other ->
  (forall rd, bit rd m = true -> 0 < cnt rd o) ->
  Kd (oofs_clone other m s) other (fun rd => b2z (bit rd m))
  /\ U (oofs_clone other m s) /\ Fr (oofs_clone other m s)
  /\ forall h rd, Phi (oofs_clone other m s) h rd = Phi s h rd.
Proof.
  intros other m s o [HK HU HF] Hin Hk Hpos. unfold oofs_clone.
  assert (Ef : find_oofs other s = Some o).
  { unfold find_oofs. destruct (find_by (fun o0 => of_other o0 =? other) (st_oofs s)) as [o'|] eqn:E.
    - apply find_by_In in E. destruct E as [Hin' Hk']. apply N.eqb_eq in Hk'.
      f_equal. eapply (NoDup_key_eq of_other); try eassumption; [apply HU|congruence].
    - pose proof (find_by_None _ _ E o Hin) as Hn. simpl in Hn. apply N.eqb_neq in Hn. contradiction. }
  rewrite Ef.
  set (rd' := of_rd o + (if m_r m then 1 else 0)). set (wr' := of_wr o + (if m_w m then 1 else 0)).
  assert (Er : inc_count (of_rd o) (m_r m) = (rd', false)).
  { unfold inc_count, rd'. destruct (m_r m) eqn:Em; [|rewrite N.add_0_r; reflexivity].
    specialize (Hpos true Em). simpl in Hpos. destruct (of_rd o =? 0) eqn:E; [apply N.eqb_eq in E; lia|reflexivity]. }
  assert (Ew : inc_count (of_wr o) (m_w m) = (wr', false)).
  { unfold inc_count, wr'. destruct (m_w m) eqn:Em; [|rewrite N.add_0_r; reflexivity].
    specialize (Hpos false Em). simpl in Hpos. destruct (of_wr o =? 0) eqn:E; [apply N.eqb_eq in E; lia|reflexivity]. }
  rewrite Er, Ew. simpl orb. cbv iota.
  set (f := fun o0 : oofs => mkOofs (of_other o0) (of_seq o0) (of_client o0) (of_owner o0) (of_handle o0) (of_sa o0) rd' wr' (of_live o0)).
  set (s' := upd_oofs other f s).
  assert (Ho : st_oofs s' = upd_at other f (st_oofs s)) by (apply upd_oofs_at; assumption).
  assert (Hfk : forall x, of_other (f x) = of_other x) by reflexivity.
  split; [|split; [|split]].
  - eapply (Kd_change s s' other f (fun _ => 0%Z)); try eassumption.
    + intros. reflexivity.
    + apply K_as_Kd. assumption.
    + intros x rd Hx Hxk Hc. assert (x = o) by (eapply (NoDup_key_eq of_other); try eassumption; [apply HU|congruence]).
      subst x. unfold expected in *. change (st_lofs s') with (st_lofs s). change (st_pending s') with (st_pending s).
      simpl of_sa. destruct rd; simpl cnt; simpl cnt in Hc; simpl bit in *; unfold rd', wr', b2z in *.
      * destruct (m_r m); lia.
      * destruct (m_w m); lia.
  - eapply (U_change s s' other f); try eassumption; reflexivity.
  - eapply (Fr_change s s' other f); try eassumption; reflexivity.
  - intros h rd. eapply (Phi_change s s' other o f []); try eassumption; try reflexivity.
    simpl. unfold holder. simpl of_handle. destruct (of_handle o =? h); simpl; [|reflexivity].
    destruct rd; simpl cnt; unfold rd', wr'.
    + destruct (m_r m) eqn:Em; [|rewrite N.add_0_r; lia]. specialize (Hpos true Em). simpl in Hpos.
      assert (0 <? of_rd o = true) by (apply N.ltb_lt; lia). assert (0 <? of_rd o + 1 = true) by (apply N.ltb_lt; lia).
      rewrite H, H0. reflexivity.
    + destruct (m_w m) eqn:Em; [|rewrite N.add_0_r; lia]. specialize (Hpos false Em). simpl in Hpos.
      assert (0 <? of_wr o = true) by (apply N.ltb_lt; lia). assert (0 <? of_wr o + 1 = true) by (apply N.ltb_lt; lia).
      rewrite H, H0. reflexivity.
Qed.

(* ---- lock-owner files ------------------------------------------------------------------------ *)
Lemma find_oofs_In : forall other s o, U s -> In o (st_oofs s) -> of_other o = other -> find_oofs other s = Some o.
Proof.
  intros other s o HU Hin Hk. unfold find_oofs.
  destruct (find_by (fun o0 => of_other o0 =? other) (st_oofs s)) as [o'|] eqn:E.
  - apply find_by_In in E. destruct E as [Hin' Hk']. apply N.eqb_eq in Hk'.
    f_equal. eapply (NoDup_key_eq of_other); try eassumption; [apply HU|congruence].
  - pose proof (find_by_None _ _ E o Hin) as Hn. simpl in Hn. apply N.eqb_neq in Hn. contradiction.
Qed.

(* deleting a lock-owner file leaves its open-owner file with one share
   reservation too many *)
Lemma del_lofs_Kd : forall s lf,
  Inv s -> In lf (st_lofs s) ->
  let s' := w_lofs s (del_by (fun l => lf_other l =? lf_other lf) (st_lofs s)) in
  Kd s' (lf_oofs lf) (fun rd => b2z (bit rd (lf_sa lf))) /\ U s' /\ Fr s'
  /\ forall h rd, Phi s' h rd = Phi s h rd.
Proof.
  intros s lf [HK HU HF] Hin s'. split; [|split; [|split]].
  - intros o rd Ho. change (st_oofs s') with (st_oofs s) in Ho. specialize (HK o rd Ho).
    unfold expected in *. change (st_pending s') with (st_pending s). change (st_lofs s') with (del_by (fun l => lf_other l =? lf_other lf) (st_lofs s)).
    rewrite (cntb_del_key lf_other (lf_other lf) (lofs_on (of_other o) rd) (st_lofs s) lf (proj1 (proj2 HU)) Hin eq_refl).
    unfold lofs_on at 2. rewrite (N.eqb_sym (lf_oofs lf) (of_other o)).
    destruct (of_other o =? 0); destruct (of_other o =? lf_oofs lf); cbn [andb]; unfold b2z in *; destruct (bit rd (lf_sa lf)); destruct (bit rd (of_sa o)); lia.
  - destruct HU as [U1 [U2 U3]]. split; [assumption|split; [|assumption]]. change (st_lofs s') with (del_by (fun l => lf_other l =? lf_other lf) (st_lofs s)).
    unfold del_by. apply NoDup_map_filter. assumption.
  - destruct HF as (F1&F2&F3). unfold Fr. change (st_oofs s') with (st_oofs s). change (st_pending s') with (st_pending s).
    change (st_rng s') with (st_rng s). split; [assumption|split; [|assumption]].
    intros l Hl. change (st_lofs s') with (del_by (fun l => lf_other l =? lf_other lf) (st_lofs s)) in Hl.
    apply In_del_by in Hl. apply F2. tauto.
  - intros. reflexivity.
Qed.

Lemma lofs_remove_pres : forall other, pres (lofs_remove other).
Proof.
  intros other s HI. unfold lofs_remove.
  destruct (find_lofs other s) as [lf|] eqn:Ef; [|split; [assumption|reflexivity]].
  apply find_by_In in Ef. destruct Ef as [Hin Hk]. apply N.eqb_eq in Hk. subst other.
  (* the unlock step only touches the pool *)
  set (s0 := if (0 <? lf_count lf)%Z then _ else s).
  assert (V0 : view_eq s s0).
  { unfold s0. destruct (0 <? lf_count lf)%Z; [|apply view_eq_refl].
    destruct (find_oofs (lf_oofs lf) s); [|apply view_panic]. destruct (find_los (lf_client lf, lf_lokey lf) s); [|apply view_panic].
    destruct (find_pfile (of_handle o) s); [|apply view_panic].
    match goal with |- view_eq _ (if ?c then _ else _) => destruct c end.
    - eapply view_eq_trans; [apply view_upd_pfile|apply view_panic].
    - apply view_upd_pfile. }
  assert (I0 : Inv s0) by (eapply view_eq_Inv; eassumption).
  assert (Hin0 : In lf (st_lofs s0)) by (destruct V0 as (_&E&_); rewrite E; assumption).
  destruct (del_lofs_Kd s0 lf I0 Hin0) as (K1&U1&F1&P1).
  set (s1 := w_lofs s0 (del_by (fun l => lf_other l =? lf_other lf) (st_lofs s0))) in *.
  destruct (oofs_release_ok (lf_oofs lf) (lf_sa lf) s1 U1 F1 K1) as [I2 P2].
  set (s2 := oofs_release (lf_oofs lf) (lf_sa lf) s1) in *.
  assert (V3 : view_eq s2 (if existsb (lofs_of_los (lf_client lf, lf_lokey lf)) (st_lofs s2) then s2
                           else w_los s2 (del_by (los_is (lf_client lf, lf_lokey lf)) (st_los s2)))).
  { destruct (existsb _ _); [apply view_eq_refl|apply view_w_los]. }
  split.
  - eapply view_eq_Inv; eassumption.
  - intros h rd. rewrite (view_eq_Phi _ _ h rd V3). rewrite P2, P1. apply view_eq_Phi. assumption.
Qed.

(* ---- setting the share mask when the debt is known ------------------------------------------- *)
Lemma oofs_set_sa_K : forall other m s dz,
  U s -> Fr s -> Kd s other dz ->
  (forall o rd, In o (st_oofs s) -> of_other o = other -> (dz rd + b2z (bit rd (of_sa o)) - b2z (bit rd m) = 0)%Z) ->
  Inv (oofs_set_sa other m s) /\ forall h rd, Phi (oofs_set_sa other m s) h rd = Phi s h rd.
Proof.
  intros other m s dz HU HF HK Hz. unfold oofs_set_sa.
  set (f := fun o0 : oofs => mkOofs (of_other o0) (of_seq o0) (of_client o0) (of_owner o0) (of_handle o0) m (of_rd o0) (of_wr o0) (of_live o0)).
  set (s' := upd_oofs other f s).
  assert (Ho : st_oofs s' = upd_at other f (st_oofs s)) by (apply upd_oofs_at; assumption).
  assert (Hfk : forall x, of_other (f x) = of_other x) by reflexivity.
  split.
  - constructor.
    + eapply Kd_as_K. eapply (Kd_change s s' other f); try eassumption.
      * intros. reflexivity.
      * intros x rd Hx Hxk Hc. specialize (Hz x rd Hx Hxk).
        unfold expected in *. change (st_lofs s') with (st_lofs s). change (st_pending s') with (st_pending s).
        simpl of_sa. change (cnt rd (f x)) with (cnt rd x). lia.
    + eapply (U_change s s' other f); try eassumption; reflexivity.
    + eapply (Fr_change s s' other f); try eassumption; reflexivity.
  - intros h rd. unfold Phi. change (st_ll s') with (st_ll s). change (st_pending s') with (st_pending s).
    rewrite Ho. f_equal. f_equal. unfold upd_at.
    assert (E : forall l, cntb (holder h rd) (map (fun x => if of_other x =? other then f x else x) l) = cntb (holder h rd) l).
    { induction l as [|y tl IH]; [reflexivity|]. simpl map. rewrite !cntb_cons, IH.
      destruct (of_other y =? other); reflexivity. }
    apply E.
Qed.

(* release the bits [cleared] of the object's own share mask and set the mask to [m] *)
Lemma release_then_set_pres : forall other m,
  pres (fun s => match find_oofs other s with
                 | None => panic s
                 | Some o => if mask_subset m (of_sa o)
                             then oofs_set_sa other m (oofs_release other (mask_diff (of_sa o) m) s) else s
                 end).
Proof.
  intros other m s [HK HU HF].
  destruct (find_oofs other s) as [o|] eqn:Ef.
  - destruct (mask_subset m (of_sa o)) eqn:Esub; [|split; [constructor; assumption|reflexivity]].
    apply find_by_In in Ef. destruct Ef as [Hin Hk]. apply N.eqb_eq in Hk.
    assert (Huniq : forall x, In x (st_oofs s) -> of_other x = other -> x = o).
    { intros x Hx Hxk. eapply (NoDup_key_eq of_other); try eassumption; [apply HU|congruence]. }
    destruct (oofs_release_gen other (mask_diff (of_sa o) m) s (fun _ => 0%Z) HU HF (K_as_Kd _ _ HK)) as (K1&U1&F1&P1).
    { intros x rd Hx Hxk Hb. rewrite (Huniq x Hx Hxk). eapply (Kd_pos s other (fun _ => 0%Z)); try eassumption; [apply K_as_Kd; assumption|].
      unfold mask_diff in Hb. destruct rd; simpl in *; apply andb_prop in Hb; destruct Hb as [Hb _]; rewrite Hb; simpl; lia. }
    set (s1 := oofs_release other (mask_diff (of_sa o) m) s) in *.
    (* objects keyed [other] after the release still carry the old share mask *)
    assert (Hsa : forall x, In x (st_oofs s1) -> of_other x = other -> of_sa x = of_sa o).
    { intros x Hx Hxk. unfold s1, oofs_release in Hx. rewrite (find_oofs_In other s o HU Hin Hk) in Hx.
      destruct (dec_count (of_rd o) (m_r (mask_diff (of_sa o) m))) as [[rd1 zr] pr].
      destruct (dec_count (of_wr o) (m_w (mask_diff (of_sa o) m))) as [[wr1 zw] pw].
      unfold gc_oofs in Hx. simpl in Hx. apply In_del_by in Hx. destruct Hx as [Hx _].
      assert (Hx' : In x (upd_by (fun o0 => of_other o0 =? other)
                 (fun o0 => mkOofs (of_other o0) (of_seq o0) (of_client o0) (of_owner o0) (of_handle o0) (of_sa o0) rd1 wr1 (of_live o0)) (st_oofs s))).
      { destruct (pr || pw); unfold emit_close in Hx; destruct (mask_empty _); exact Hx. }
      rewrite (upd_by_map of_other other _ (st_oofs s) (proj1 HU)) in Hx'.
      apply in_map_iff in Hx'. destruct Hx' as [y [Hy Hyin]].
      destruct (of_other y =? other) eqn:E.
      - apply N.eqb_eq in E. rewrite (Huniq y Hyin E) in Hy. subst x. reflexivity.
      - subst x. apply N.eqb_neq in E. contradiction. }
    destruct (oofs_set_sa_K other m s1 _ U1 F1 K1) as [I2 P2].
    { intros x rd Hx Hxk. rewrite (Hsa x Hx Hxk). unfold mask_subset, mask_empty, mask_diff in *. unfold b2z. destruct rd; simpl in *;
      destruct (m_r (of_sa o)), (m_w (of_sa o)), (m_r m), (m_w m); simpl in *; try discriminate; lia. }
    split; [assumption|]. intros. rewrite P2. apply P1.
  - split; [eapply view_eq_Inv; [apply view_panic|constructor; assumption]|].
    intros. apply view_eq_Phi. apply view_panic.
Qed.

(* ---- removing open-owner files, open-owners, clients; enter() --------------------------------- *)
Lemma mask_subset_none : forall m, mask_subset mask_none m = true.
Proof. intros [r w]. reflexivity. Qed.

Lemma mask_diff_none : forall m, mask_diff m mask_none = m.
Proof. intros [r w]. unfold mask_diff. simpl. rewrite !Bool.andb_true_r. reflexivity. Qed.

Lemma oofs_remove_start_pres : forall other, pres (oofs_remove_start other).
Proof.
  intros other. unfold oofs_remove_start.
  apply (pres_ext (fun s => (fun s1 => match find_oofs other s1 with
                                      | None => panic s1
                                      | Some o => if mask_subset mask_none (of_sa o)
                                                  then oofs_set_sa other mask_none (oofs_release other (mask_diff (of_sa o) mask_none) s1) else s1
                                      end)
                          (fold_left (fun s o => lofs_remove o s) (lofs_others_of_oofs other s) s))).
  - intros s. cbv beta. destruct (find_oofs other _); [|reflexivity].
    rewrite mask_subset_none, mask_diff_none. reflexivity.
  - intros s H.
    destruct (pres_fold_left (fun s o => lofs_remove o s) (lofs_others_of_oofs other s) (fun a => lofs_remove_pres a) s H) as [H1 P1].
    destruct (release_then_set_pres other mask_none _ H1) as [H2 P2].
    split; [exact H2|]. intros. rewrite P2. apply P1.
Qed.

Lemma oofs_finalize_pres : forall other, pres (oofs_finalize other).
Proof.
  intros other s [HK HU HF]. unfold oofs_finalize.
  destruct (find_oofs other s) as [o|]; [|split; [eapply view_eq_Inv; [apply view_panic|constructor; assumption]|intros; apply view_eq_Phi; apply view_panic]].
  destruct (of_live o); [|split; [eapply view_eq_Inv; [apply view_panic|constructor; assumption]|intros; apply view_eq_Phi; apply view_panic]].
  set (f := fun o0 : oofs => mkOofs (of_other o0) (of_seq o0) (of_client o0) (of_owner o0) (of_handle o0) (of_sa o0) (of_rd o0) (of_wr o0) false).
  set (s1 := upd_oofs other f s).
  assert (Ho : st_oofs s1 = upd_at other f (st_oofs s)) by (apply upd_oofs_at; assumption).
  assert (Hfk : forall x, of_other (f x) = of_other x) by reflexivity.
  assert (K1 : K s1).
  { intros o' rd Hin. rewrite Ho in Hin. unfold upd_at in Hin. apply in_map_iff in Hin. destruct Hin as [x [Hx Hin]].
    specialize (HK x rd Hin). unfold expected in *. change (st_lofs s1) with (st_lofs s). change (st_pending s1) with (st_pending s).
    subst o'. destruct (of_other x =? other); exact HK. }
  assert (U1 : U s1) by (eapply (U_change s s1 other f); try eassumption; reflexivity).
  assert (F1 : Fr s1) by (eapply (Fr_change s s1 other f); try eassumption; reflexivity).
  assert (P1 : forall h rd, Phi s1 h rd = Phi s h rd).
  { intros h rd. unfold Phi. change (st_ll s1) with (st_ll s). change (st_pending s1) with (st_pending s).
    rewrite Ho. f_equal. f_equal. unfold upd_at.
    assert (E : forall l, cntb (holder h rd) (map (fun x => if of_other x =? other then f x else x) l) = cntb (holder h rd) l).
    { induction l as [|y tl IH]; [reflexivity|]. simpl map. rewrite !cntb_cons, IH.
      destruct (of_other y =? other); reflexivity. }
    apply E. }
  set (s2 := pool_close (of_handle o) s1).
  assert (V2 : view_eq s1 s2) by apply view_pool_close.
  destruct (gc_oofs_ok other s2 (fun _ => 0%Z) 0) as (K3&U3&F3&P3).
  - eapply view_eq_Kd; eassumption.
  - eapply view_eq_U; eassumption.
  - eapply view_eq_Fr; eassumption.
  - split; [constructor; assumption|]. intros. rewrite P3, (view_eq_Phi _ _ h rd V2). apply P1.
Qed.

Lemma forget_last_pres : forall ck, pres (forget_last ck).
Proof.
  intros ck s H. unfold forget_last.
  destruct (find_oos ck s) as [o|]; [|split; [assumption|reflexivity]].
  destruct (oo_last o) as [c|]; [|split; [assumption|reflexivity]].
  destruct (ca_closed c) as [other|].
  - apply (pres_comp (set_oos_last ck None) (oofs_finalize other)); [|apply oofs_finalize_pres|assumption].
    apply pres_view. intros. apply view_set_oos_last.
  - apply (pres_view (set_oos_last ck None)); [|assumption]. intros. apply view_set_oos_last.
Qed.

Lemma oos_reinit_pres : forall ck, pres (oos_reinit ck).
Proof.
  intros ck s H. unfold oos_reinit.
  set (s0 := match find_oos ck s with Some o => if oo_intx o then panic s else s | None => s end).
  assert (V0 : view_eq s s0).
  { unfold s0. destruct (find_oos ck s); [|apply view_eq_refl]. destruct (oo_intx o); [apply view_panic|apply view_eq_refl]. }
  assert (H0 : Inv s0) by (eapply view_eq_Inv; eassumption).
  destruct (forget_last_pres ck s0 H0) as [H1 P1].
  set (s1 := forget_last ck s0) in *.
  destruct (pres_fold_left (fun s o => oofs_finalize o (oofs_remove_start o s)) (oofs_others_of_owner ck s1)
              (fun a => pres_comp _ _ (oofs_remove_start_pres a) (oofs_finalize_pres a)) s1 H1) as [H2 P2].
  split; [exact H2|]. intros. rewrite P2, P1. apply view_eq_Phi. assumption.
Qed.

Lemma oos_remove_pres : forall ck, pres (oos_remove ck).
Proof.
  intros ck s H. unfold oos_remove. destruct (oos_reinit_pres ck s H) as [H1 P1].
  set (s1 := oos_reinit ck s) in *.
  assert (V : view_eq s1 (w_oos (w_unused s1 (del_by (pair_eqb ck) (st_unused s1)))
                                (del_by (oos_is ck) (st_oos (w_unused s1 (del_by (pair_eqb ck) (st_unused s1))))))).
  { eapply view_eq_trans; [apply view_w_unused|apply view_w_oos]. }
  split; [eapply view_eq_Inv; eassumption|]. intros. rewrite (view_eq_Phi _ _ h rd V). apply P1.
Qed.

Lemma conf_remove_pres : forall short, pres (conf_remove short).
Proof.
  intros short s H. unfold conf_remove.
  destruct (find_conf short s) as [c|]; [|split; [assumption|reflexivity]].
  set (s0 := if cf_hold c =? 0 then s else panic s).
  assert (V0 : view_eq s s0) by (unfold s0; destruct (cf_hold c =? 0); [apply view_eq_refl|apply view_panic]).
  assert (H0 : Inv s0) by (eapply view_eq_Inv; eassumption).
  assert (Hmid : let s1 := match confirmed_of (cf_long c) s0 with
                           | Some sh =>
                             if sh =? short then
                               let cks := map (fun o => (oo_client o, oo_key o)) (filter (fun o => oo_client o =? short) (st_oos s0)) in
                               let s := fold_left (fun s ck => oos_remove ck s) cks s0 in
                               let s := if existsb (fun l => lo_client l =? short) (st_los s) then panic s else s in
                               w_confirmed s (del_by (fun p => fst p =? cf_long c) (st_confirmed s))
                             else s0
                           | None => s0 end in
                 Inv s1 /\ forall h rd, Phi s1 h rd = Phi s0 h rd).
  { cbv zeta. destruct (confirmed_of (cf_long c) s0) as [sh|]; [|split; [assumption|reflexivity]].
    destruct (sh =? short); [|split; [assumption|reflexivity]].
    destruct (pres_fold_left (fun s ck => oos_remove ck s)
                (map (fun o => (oo_client o, oo_key o)) (filter (fun o => oo_client o =? short) (st_oos s0)))
                (fun a => oos_remove_pres a) s0 H0) as [H1 P1].
    set (s1 := fold_left _ _ s0) in *.
    set (s2 := if existsb (fun l => lo_client l =? short) (st_los s1) then panic s1 else s1).
    assert (V2 : view_eq s1 s2) by (unfold s2; destruct (existsb _ _); [apply view_panic|apply view_eq_refl]).
    assert (V3 : view_eq s2 (w_confirmed s2 (del_by (fun p => fst p =? cf_long c) (st_confirmed s2)))) by apply view_w_confirmed.
    split; [exact (view_eq_Inv _ _ V3 (view_eq_Inv _ _ V2 H1))|].
    intros. rewrite (view_eq_Phi _ _ h rd V3), (view_eq_Phi _ _ h rd V2). apply P1. }
  cbv zeta in Hmid. destruct Hmid as [H1 P1].
  match goal with |- Inv (w_idle (w_confs ?s1 _) _) /\ _ => set (s1' := s1) in * end.
  assert (V : view_eq s1' (w_idle (w_confs s1' (del_by (fun c0 => cf_short c0 =? short) (st_confs s1')))
                                  (del_by (N.eqb short) (st_idle (w_confs s1' (del_by (fun c0 => cf_short c0 =? short) (st_confs s1'))))))).
  { eapply view_eq_trans; [apply view_w_confs|apply view_w_idle]. }
  split; [eapply view_eq_Inv; eassumption|].
  intros. rewrite (view_eq_Phi _ _ h rd V), P1. apply view_eq_Phi. assumption.
Qed.

Lemma expire_confs_pres : forall fuel minseen, pres (expire_confs fuel minseen).
Proof.
  induction fuel as [|fuel IH]; intros minseen s H; simpl; [split; [assumption|reflexivity]|].
  destruct (st_idle s) as [|short tl]; [split; [assumption|reflexivity]|].
  destruct (find_conf short s) as [c|]; [|split; [eapply view_eq_Inv; [apply view_panic|assumption]|intros; apply view_eq_Phi; apply view_panic]].
  destruct (cf_lastseen c <? minseen)%Z; [|split; [assumption|reflexivity]].
  destruct (conf_remove_pres short s H) as [H1 P1]. destruct (IH minseen _ H1) as [H2 P2].
  split; [assumption|]. intros. rewrite P2. apply P1.
Qed.

Lemma expire_oos_pres : forall fuel minseen, pres (expire_oos fuel minseen).
Proof.
  induction fuel as [|fuel IH]; intros minseen s H; simpl; [split; [assumption|reflexivity]|].
  destruct (st_unused s) as [|ck tl]; [split; [assumption|reflexivity]|].
  destruct (find_oos ck s) as [o|]; [|split; [eapply view_eq_Inv; [apply view_panic|assumption]|intros; apply view_eq_Phi; apply view_panic]].
  destruct (oo_lastused o <? minseen)%Z; [|split; [assumption|reflexivity]].
  destruct (oos_remove_pres ck s H) as [H1 P1]. destruct (IH minseen _ H1) as [H2 P2].
  split; [assumption|]. intros. rewrite P2. apply P1.
Qed.

Lemma enter_pres : forall t, pres (enter t).
Proof.
  intros t s H. unfold enter.
  set (s0 := w_now s (Z.max (st_now s) t)).
  assert (V0 : view_eq s s0) by apply view_w_now.
  assert (H0 : Inv s0) by (eapply view_eq_Inv; eassumption).
  destruct (expire_confs_pres (List.length (st_idle s0)) (st_now s0 - lease)%Z s0 H0) as [H1 P1].
  destruct (expire_oos_pres (List.length (st_unused (expire_confs (List.length (st_idle s0)) (st_now s0 - lease)%Z s0))) (st_now s0 - lease)%Z _ H1) as [H2 P2].
  split; [exact H2|]. intros. rewrite P2, P1. apply view_eq_Phi. assumption.
Qed.

(* ---- functions returning a state and a result ------------------------------------------------- *)
Definition pres2 {X} (f : state -> state * X) : Prop :=
  forall s, Inv s -> Inv (fst (f s)) /\ forall h rd, Phi (fst (f s)) h rd = Phi s h rd.

Lemma pres_of_view : forall s s', view_eq s s' -> Inv s -> Inv s' /\ forall h rd, Phi s' h rd = Phi s h rd.
Proof. intros s s' V H. split; [eapply view_eq_Inv; eassumption|]. intros. apply view_eq_Phi. assumption. Qed.

Lemma pres_chain : forall s s1 s2,
  (Inv s -> Inv s1 /\ forall h rd, Phi s1 h rd = Phi s h rd) ->
  (Inv s1 -> Inv s2 /\ forall h rd, Phi s2 h rd = Phi s1 h rd) ->
  Inv s -> Inv s2 /\ forall h rd, Phi s2 h rd = Phi s h rd.
Proof.
  intros s s1 s2 H1 H2 H. destruct (H1 H) as [I1 P1]. destruct (H2 I1) as [I2 P2].
  split; [assumption|]. intros. rewrite P2. apply P1.
Qed.

(* ---- the random number generator ---------------------------------------------------------------- *)
Lemma w_rng_pres : forall s v, st_rng s <= v -> Inv s -> Inv (w_rng s v) /\ forall h rd, Phi (w_rng s v) h rd = Phi s h rd.
Proof.
  intros s v Hle [HK HU (F1&F2&F3)]. split; [|reflexivity]. constructor.
  - exact HK.
  - exact HU.
  - unfold Fr. simpl. split; [|split].
    + intros o Hin. specialize (F1 o Hin). lia.
    + intros l Hin. specialize (F2 l Hin). lia.
    + intros p Hin. specialize (F3 p Hin). destruct (snd p); try exact I. lia.
Qed.

Lemma draw_pres : forall s, Inv s -> Inv (snd (draw s)) /\ forall h rd, Phi (snd (draw s)) h rd = Phi s h rd.
Proof. intros s H. unfold draw. simpl. apply w_rng_pres; [lia|assumption]. Qed.

(* ---- transactions --------------------------------------------------------------------------------- *)
Lemma view_oos_complete_tx : forall ck seq c s, view_eq s (oos_complete_tx ck seq c s).
Proof.
  intros. unfold oos_complete_tx.
  eapply view_eq_trans; [|apply view_release].
  set (s1 := set_oos_intx ck false s).
  assert (V1 : view_eq s s1) by apply view_set_oos_intx.
  set (s2 := if should_complete (status_of (ca_res c)) then _ else s1).
  assert (V2 : view_eq s1 s2) by (unfold s2; destruct (should_complete _); [apply view_upd_oos|apply view_eq_refl]).
  eapply view_eq_trans; [exact V1|]. eapply view_eq_trans; [exact V2|].
  destruct (is_unused ck s2); [|apply view_eq_refl].
  eapply view_eq_trans; [apply view_upd_oos|apply view_w_unused].
Qed.

Lemma view_los_start_tx : forall lk seq initial s, view_eq s (fst (los_start_tx lk seq initial s)).
Proof.
  intros. unfold los_start_tx. destruct (find_los lk s); [|apply view_panic].
  destruct (match lo_last l with Some c => if seq =? lo_lastseq l then Some c else None | None => None end); [apply view_eq_refl|].
  destruct (negb initial && negb (seq =? next_seq (lo_lastseq l))); [apply view_eq_refl|]. simpl.
  eapply view_eq_trans; [apply view_upd_los|apply view_hold].
Qed.

Lemma view_los_complete_tx : forall lk seq c s, view_eq s (los_complete_tx lk seq c s).
Proof.
  intros. unfold los_complete_tx. eapply view_eq_trans; [|apply view_release].
  destruct (should_complete _); [apply view_upd_los|apply view_eq_refl].
Qed.

Lemma oos_start_tx_pres : forall ck seq pol, pres2 (oos_start_tx ck seq pol).
Proof.
  intros ck seq pol s H. unfold oos_start_tx.
  destruct (find_oos ck s) as [o|]; [|simpl; apply pres_of_view; [apply view_panic|assumption]].
  set (s0 := if oo_intx o then panic s else s).
  assert (V0 : view_eq s s0) by (unfold s0; destruct (oo_intx o); [apply view_panic|apply view_eq_refl]).
  destruct (pres_of_view _ _ V0 H) as [H0 P0].
  destruct (match oo_last o with Some c => if seq =? oo_lastseq o then Some c else None | None => None end).
  { simpl. split; assumption. }
  assert (Hmid : forall s1 (fail : bool), (Inv s1 /\ forall h rd, Phi s1 h rd = Phi s h rd) ->
            let r := if fail then (s1, TxFail ERR_BAD_SEQID)
                     else (hold (fst ck) (w_unused (set_oos_intx ck true (forget_last ck s1))
                                                   (del_by (pair_eqb ck) (st_unused (set_oos_intx ck true (forget_last ck s1))))), TxStarted) in
            Inv (fst r) /\ forall h rd, Phi (fst r) h rd = Phi s h rd).
  { intros s1 fail [I1 P1]. destruct fail; simpl; [split; assumption|].
    destruct (forget_last_pres ck s1 I1) as [I2 P2].
    set (s2 := forget_last ck s1) in *.
    assert (V : view_eq s2 (hold (fst ck) (w_unused (set_oos_intx ck true s2) (del_by (pair_eqb ck) (st_unused (set_oos_intx ck true s2)))))).
    { eapply view_eq_trans; [apply view_set_oos_intx|]. eapply view_eq_trans; [apply view_w_unused|apply view_hold]. }
    destruct (pres_of_view _ _ V I2) as [I3 P3]. split; [assumption|]. intros. rewrite P3, P2. apply P1. }
  destruct (oo_confirmed o).
  - apply (Hmid s0 (negb (seq =? next_seq (oo_lastseq o)))). split; assumption.
  - destruct pol.
    + apply (Hmid s0 (negb (seq =? next_seq (oo_lastseq o)))). split; assumption.
    + apply (Hmid s0 true). split; assumption.
    + apply (Hmid (oos_reinit ck s0) false). destruct (oos_reinit_pres ck s0 H0) as [I1 P1].
      split; [assumption|]. intros. rewrite P1. apply P0.
Qed.

(* ---- lock-owner files: updates that keep identity, owner file and share mask ------------------------- *)
Lemma upd_by_map_same : forall {A B} (p : A -> bool) (f : A -> A) (g : A -> B) (l : list A),
  (forall x, g (f x) = g x) -> map g (upd_by p f l) = map g l.
Proof.
  intros A B p f g l Hg. induction l as [|x tl IH]; simpl; [reflexivity|].
  destruct (p x); simpl; [rewrite Hg; reflexivity|rewrite IH; reflexivity].
Qed.

Lemma cntb_upd_by_same : forall {A} (p q : A -> bool) (f : A -> A) (l : list A),
  (forall x, q (f x) = q x) -> cntb q (upd_by p f l) = cntb q l.
Proof.
  intros A p q f l Hq. induction l as [|x tl IH]; simpl; [reflexivity|].
  destruct (p x); rewrite !cntb_cons; [rewrite Hq; reflexivity|rewrite IH; reflexivity].
Qed.

Lemma In_upd_by : forall {A} (p : A -> bool) (f : A -> A) (l : list A) y,
  In y (upd_by p f l) -> exists x, In x l /\ (y = x \/ y = f x).
Proof.
  intros A p f l. induction l as [|x tl IH]; simpl; intros y Hy; [contradiction|].
  destruct (p x); simpl in Hy.
  - destruct Hy as [<- | Hy]; [exists x; split; [left; reflexivity|right; reflexivity]|].
    exists y. split; [right; assumption|left; reflexivity].
  - destruct Hy as [<- | Hy]; [exists x; split; [left; reflexivity|left; reflexivity]|].
    destruct (IH y Hy) as [z [Hz Hyz]]. exists z. split; [right; assumption|assumption].
Qed.

Lemma upd_lofs_pres : forall other f s,
  (forall l, lf_other (f l) = lf_other l /\ lf_oofs (f l) = lf_oofs l /\ lf_sa (f l) = lf_sa l) ->
  Inv s -> Inv (upd_lofs other f s) /\ forall h rd, Phi (upd_lofs other f s) h rd = Phi s h rd.
Proof.
  intros other f s Hf [HK [U1 [U2 U3]] (F1&F2&F3)]. split; [|reflexivity]. unfold upd_lofs. constructor.
  - intros o rd Hin. specialize (HK o rd Hin). unfold expected in *. simpl.
    rewrite (cntb_upd_by_same _ (lofs_on (of_other o) rd) f (st_lofs s)); [exact HK|].
    intros l. unfold lofs_on. destruct (Hf l) as (_&E1&E2). rewrite E1, E2. reflexivity.
  - split; [exact U1|split; [|exact U3]]. simpl. rewrite upd_by_map_same; [exact U2|]. intros l. apply Hf.
  - unfold Fr. simpl. split; [exact F1|split; [|exact F3]].
    intros l Hin. apply In_upd_by in Hin. destruct Hin as [x [Hx [-> | ->]]]; [apply F2; assumption|].
    destruct (Hf x) as (E0&E1&_). rewrite E0, E1. apply F2. assumption.
Qed.

(* appending a lock-owner file settles the debt of a cloned share reservation *)
Lemma add_lofs_ok : forall s lf,
  Kd s (lf_oofs lf) (fun rd => b2z (bit rd (lf_sa lf))) -> U s -> Fr s ->
  (forall l, In l (st_lofs s) -> lf_other l <> lf_other lf) ->
  lf_other lf < st_rng s -> lf_oofs lf < st_rng s ->
  let s' := w_lofs s (st_lofs s ++ [lf]) in
  Inv s' /\ forall h rd, Phi s' h rd = Phi s h rd.
Proof.
  intros s lf HK [U1 [U2 U3]] (F1&F2&F3) Hfresh Hl1 Hl2 s'. split; [|reflexivity]. constructor.
  - intros o rd Hin. change (st_oofs s') with (st_oofs s) in Hin. specialize (HK o rd Hin).
    unfold expected in *. change (st_pending s') with (st_pending s). change (st_lofs s') with (st_lofs s ++ [lf]).
    rewrite cntb_app, cntb_cons, cntb_nil. unfold lofs_on at 2. rewrite (N.eqb_sym (lf_oofs lf) (of_other o)).
    destruct (of_other o =? 0); destruct (of_other o =? lf_oofs lf); cbn [andb]; unfold b2z in *; destruct (bit rd (lf_sa lf)); lia.
  - split; [exact U1|split; [|exact U3]]. change (st_lofs s') with (st_lofs s ++ [lf]). rewrite map_app. simpl.
    apply NoDup_app_singleton; [exact U2|]. intro Hin. apply in_map_iff in Hin. destruct Hin as [l [E Hin]].
    apply (Hfresh l Hin). exact E.
  - unfold Fr. change (st_oofs s') with (st_oofs s). change (st_pending s') with (st_pending s). change (st_rng s') with (st_rng s).
    split; [exact F1|split; [|exact F3]]. intros l Hin. change (st_lofs s') with (st_lofs s ++ [lf]) in Hin.
    apply in_app_or in Hin. destruct Hin as [Hin | [<- | []]]; [apply F2; assumption|split; assumption].
Qed.

(* ---- pending calls ---------------------------------------------------------------------------------- *)
Lemma add_pio_ok : forall s g other client m,
  Kd s other (fun rd => b2z (bit rd m)) -> U s -> Fr s ->
  ~ In g (map fst (st_pending s)) -> other < st_rng s ->
  let s' := w_pending s (st_pending s ++ [(g, PIo other client m)]) in
  Inv s' /\ forall h rd, Phi s' h rd = Phi s h rd.
Proof.
  intros s g other client m HK [U1 [U2 U3]] (F1&F2&F3) Hg Hlt s'. split.
  - constructor.
    + intros o rd Hin. change (st_oofs s') with (st_oofs s) in Hin. specialize (HK o rd Hin).
      unfold expected in *. change (st_lofs s') with (st_lofs s). change (st_pending s') with (st_pending s ++ [(g, PIo other client m)]).
      rewrite cntb_app, cntb_cons, cntb_nil. unfold io_on at 2. cbn [snd]. rewrite (N.eqb_sym other (of_other o)).
      destruct (of_other o =? 0); destruct (of_other o =? other); cbn [andb]; unfold b2z in *; destruct (bit rd m); lia.
    + split; [exact U1|split; [exact U2|]]. change (st_pending s') with (st_pending s ++ [(g, PIo other client m)]).
      rewrite map_app. simpl. apply NoDup_app_singleton; assumption.
    + unfold Fr. change (st_oofs s') with (st_oofs s). change (st_lofs s') with (st_lofs s). change (st_rng s') with (st_rng s).
      split; [exact F1|split; [exact F2|]]. intros p Hin. change (st_pending s') with (st_pending s ++ [(g, PIo other client m)]) in Hin.
      apply in_app_or in Hin. destruct Hin as [Hin | [<- | []]]; [apply F3; assumption|]. simpl. exact Hlt.
  - intros h rd. unfold Phi. change (st_oofs s') with (st_oofs s). change (st_ll s') with (st_ll s).
    change (st_pending s') with (st_pending s ++ [(g, PIo other client m)]). rewrite pends_net_app. simpl. unfold pend_net. simpl. lia.
Qed.

Lemma add_popen_ok : forall s g cl key seq acc prev,
  Inv s -> ~ In g (map fst (st_pending s)) ->
  let s' := w_ll (w_pending s (st_pending s ++ [(g, POpen cl key seq acc prev (st_ll s))])) [] in
  Inv s' /\ forall h rd, Phi s' h rd = Phi s h rd.
Proof.
  intros s g cl key seq acc prev [HK [U1 [U2 U3]] (F1&F2&F3)] Hg s'. split.
  - constructor.
    + intros o rd Hin. change (st_oofs s') with (st_oofs s) in Hin. specialize (HK o rd Hin).
      unfold expected in *. change (st_lofs s') with (st_lofs s).
      change (st_pending s') with (st_pending s ++ [(g, POpen cl key seq acc prev (st_ll s))]).
      rewrite cntb_app, cntb_cons, cntb_nil. unfold io_on at 2. cbn [snd]. lia.
    + split; [exact U1|split; [exact U2|]]. change (st_pending s') with (st_pending s ++ [(g, POpen cl key seq acc prev (st_ll s))]).
      rewrite map_app. simpl. apply NoDup_app_singleton; assumption.
    + unfold Fr. change (st_oofs s') with (st_oofs s). change (st_lofs s') with (st_lofs s). change (st_rng s') with (st_rng s).
      split; [exact F1|split; [exact F2|]]. intros p Hin.
      change (st_pending s') with (st_pending s ++ [(g, POpen cl key seq acc prev (st_ll s))]) in Hin.
      apply in_app_or in Hin. destruct Hin as [Hin | [<- | []]]; [apply F3; assumption|]. simpl. exact I.
  - intros h rd. unfold Phi. change (st_oofs s') with (st_oofs s). change (st_ll s') with (@nil leafcall).
    change (st_pending s') with (st_pending s ++ [(g, POpen cl key seq acc prev (st_ll s))]). rewrite pends_net_app. simpl.
    unfold pend_net. simpl. lia.
Qed.

Lemma pends_net_del : forall h rd (l : list (N * pending)) g p,
  NoDup (map fst l) -> In (g, p) l ->
  pends_net h rd (del_by (fun q => fst q =? g) l) = (pends_net h rd l - pend_net h rd (g, p))%Z.
Proof.
  intros h rd l g p. induction l as [|y tl IH]; intros Hnd Hin; [contradiction|].
  inversion Hnd as [|? ? Hn Hd]; subst. unfold del_by in *. simpl.
  destruct Hin as [-> | Hin].
  - simpl. rewrite N.eqb_refl. simpl.
    assert (E : forall tl' : list (N * pending), (forall y, In y tl' -> fst y <> g) -> filter (fun q => negb (fst q =? g)) tl' = tl').
    { induction tl' as [|z tl' IH2]; simpl; intros Hz; [reflexivity|].
      destruct (fst z =? g) eqn:E.
      - apply N.eqb_eq in E. exfalso. apply (Hz z); [left; reflexivity|assumption].
      - simpl. f_equal. apply IH2. intros. apply Hz. right. assumption. }
    rewrite (E tl); [lia|]. intros z Hz Heq. apply Hn. simpl. apply in_map_iff. exists z. split; assumption.
  - destruct (fst y =? g) eqn:E.
    + apply N.eqb_eq in E. exfalso. apply Hn. apply in_map_iff. exists (g, p). split; [simpl; congruence|assumption].
    + simpl. rewrite IH by assumption. lia.
Qed.

Lemma find_pending_In : forall g s x, find_by (fun p => fst p =? g) (st_pending s) = Some x -> In x (st_pending s) /\ fst x = g.
Proof. intros g s x H. apply find_by_In in H. destruct H as [H1 H2]. apply N.eqb_eq in H2. tauto. Qed.

(* removing a parked I/O call leaves its open-owner file with the cloned bits as debt *)
Lemma del_pio_ok : forall s g other client m,
  Inv s -> In (g, PIo other client m) (st_pending s) ->
  let s' := w_pending s (del_by (fun p => fst p =? g) (st_pending s)) in
  Kd s' other (fun rd => b2z (bit rd m)) /\ U s' /\ Fr s' /\ forall h rd, Phi s' h rd = Phi s h rd.
Proof.
  intros s g other client m [HK [U1 [U2 U3]] (F1&F2&F3)] Hin s'. split; [|split; [|split]].
  - intros o rd Ho. change (st_oofs s') with (st_oofs s) in Ho. specialize (HK o rd Ho).
    unfold expected in *. change (st_lofs s') with (st_lofs s). change (st_pending s') with (del_by (fun p => fst p =? g) (st_pending s)).
    rewrite (cntb_del_key fst g (io_on (of_other o) rd) (st_pending s) (g, PIo other client m) U3 Hin eq_refl).
    unfold io_on at 2. cbn [snd]. rewrite (N.eqb_sym other (of_other o)).
    destruct (of_other o =? 0); destruct (of_other o =? other); cbn [andb]; unfold b2z in *; destruct (bit rd m); destruct (bit rd (of_sa o)); lia.
  - split; [exact U1|split; [exact U2|]]. change (st_pending s') with (del_by (fun p => fst p =? g) (st_pending s)).
    unfold del_by. apply NoDup_map_filter. exact U3.
  - unfold Fr. change (st_oofs s') with (st_oofs s). change (st_lofs s') with (st_lofs s). change (st_rng s') with (st_rng s).
    split; [exact F1|split; [exact F2|]]. intros p Hp. change (st_pending s') with (del_by (fun p => fst p =? g) (st_pending s)) in Hp.
    apply In_del_by in Hp. apply F3. tauto.
  - intros h rd. unfold Phi. change (st_oofs s') with (st_oofs s). change (st_ll s') with (st_ll s).
    change (st_pending s') with (del_by (fun p => fst p =? g) (st_pending s)).
    rewrite (pends_net_del h rd (st_pending s) g (PIo other client m) U3 Hin). unfold pend_net. simpl. lia.
Qed.

(* a parked OPEN returns: its leavesToClose are pending again *)
Lemma del_popen_ok : forall s g cl key seq acc prev ll,
  Inv s -> In (g, POpen cl key seq acc prev ll) (st_pending s) ->
  let s0 := w_pending s (del_by (fun p => fst p =? g) (st_pending s)) in
  let s' := w_ll s0 (ll ++ st_ll s0) in
  Inv s' /\ forall h rd, Phi s' h rd = Phi s h rd.
Proof.
  intros s g cl key seq acc prev ll [HK [U1 [U2 U3]] (F1&F2&F3)] Hin s0 s'. split.
  - constructor.
    + intros o rd Ho. change (st_oofs s') with (st_oofs s) in Ho. specialize (HK o rd Ho).
      unfold expected in *. change (st_lofs s') with (st_lofs s). change (st_pending s') with (del_by (fun p => fst p =? g) (st_pending s)).
      rewrite (cntb_del_key fst g (io_on (of_other o) rd) (st_pending s) (g, POpen cl key seq acc prev ll) U3 Hin eq_refl).
      unfold io_on at 2. cbn [snd]. lia.
    + split; [exact U1|split; [exact U2|]]. change (st_pending s') with (del_by (fun p => fst p =? g) (st_pending s)).
      unfold del_by. apply NoDup_map_filter. exact U3.
    + unfold Fr. change (st_oofs s') with (st_oofs s). change (st_lofs s') with (st_lofs s). change (st_rng s') with (st_rng s).
      split; [exact F1|split; [exact F2|]]. intros p Hp. change (st_pending s') with (del_by (fun p => fst p =? g) (st_pending s)) in Hp.
      apply In_del_by in Hp. apply F3. tauto.
  - intros h rd. unfold Phi. change (st_oofs s') with (st_oofs s). change (st_ll s') with (ll ++ st_ll s).
    change (st_pending s') with (del_by (fun p => fst p =? g) (st_pending s)).
    rewrite (pends_net_del h rd (st_pending s) g (POpen cl key seq acc prev ll) U3 Hin), calls_net_app. unfold pend_net. simpl. lia.
Qed.

(* ---- OPEN: a leaf was opened ---------------------------------------------------------------------------- *)
Lemma new_oofs_ok : forall s cl key h acc,
  Inv s ->
  let s2 := pool_open h (w_ll s (mkCall h true acc :: st_ll s)) in
  let s3 := snd (draw s2) in
  let s4 := w_oofs s3 (st_oofs s3 ++ [mkOofs (fst (draw s2)) 1 cl key h acc (if m_r acc then 1 else 0) (if m_w acc then 1 else 0) true]) in
  Inv s4 /\ forall h' rd, Phi s4 h' rd = Phi s h' rd.
Proof.
  intros s cl key h acc [HK [U1 [U2 U3]] (F1&F2&F3)] s2 s3 s4.
  assert (V2 : st_oofs s2 = st_oofs s /\ st_lofs s2 = st_lofs s /\ st_pending s2 = st_pending s /\ st_rng s2 = st_rng s
               /\ st_ll s2 = mkCall h true acc :: st_ll s).
  { destruct (view_pool_open h (w_ll s (mkCall h true acc :: st_ll s))) as (A&B&C&D&E). repeat split; assumption. }
  destruct V2 as (Vo&Vl&Vp&Vr&Vll).
  set (other := fst (draw s2)) in *. assert (Eo : other = st_rng s) by (unfold other, draw; simpl; exact Vr).
  set (new := mkOofs other 1 cl key h acc (if m_r acc then 1 else 0) (if m_w acc then 1 else 0) true) in *.
  assert (Eoofs : st_oofs s4 = st_oofs s ++ [new]) by (unfold s4, s3, draw; simpl; rewrite Vo; reflexivity).
  assert (Elofs : st_lofs s4 = st_lofs s) by (unfold s4, s3, draw; simpl; exact Vl).
  assert (Epend : st_pending s4 = st_pending s) by (unfold s4, s3, draw; simpl; exact Vp).
  assert (Ell : st_ll s4 = mkCall h true acc :: st_ll s) by (unfold s4, s3, draw; simpl; exact Vll).
  assert (Erng : st_rng s4 = st_rng s + 1) by (unfold s4, s3, draw; simpl; rewrite Vr; reflexivity).
  split.
  - constructor.
    + intros o rd Hin. rewrite Eoofs in Hin. unfold expected. rewrite Elofs, Epend.
      apply in_app_or in Hin. destruct Hin as [Hin | [<- | []]]; [apply HK; assumption|].
      simpl of_other. simpl of_sa. rewrite Eo.
      rewrite (cntb_zero (lofs_on (st_rng s) rd) (st_lofs s)).
      2:{ intros l Hl. destruct (F2 l Hl) as [_ Hlt]. unfold lofs_on. assert (E : lf_oofs l =? st_rng s = false) by (apply N.eqb_neq; lia). rewrite E. reflexivity. }
      rewrite (cntb_zero (io_on (st_rng s) rd) (st_pending s)).
      2:{ intros p Hp. specialize (F3 p Hp). unfold io_on. destruct (snd p); try reflexivity.
          assert (E : other0 =? st_rng s = false) by (apply N.eqb_neq; lia). rewrite E. reflexivity. }
      destruct (st_rng s =? 0); destruct rd; simpl; unfold b2z; [destruct (m_r acc)|destruct (m_w acc)|destruct (m_r acc)|destruct (m_w acc)]; reflexivity.
    + split; [|split; [rewrite Elofs; exact U2|rewrite Epend; exact U3]].
      rewrite Eoofs, map_app. simpl. apply NoDup_app_singleton; [exact U1|].
      intro Hin. apply in_map_iff in Hin. destruct Hin as [o [E Hin]]. specialize (F1 o Hin). lia.
    + unfold Fr. rewrite Elofs, Epend, Erng. split; [|split].
      * intros o Hin. rewrite Eoofs in Hin. apply in_app_or in Hin. destruct Hin as [Hin | [<- | []]]; [specialize (F1 o Hin); lia|simpl; lia].
      * intros l Hl. specialize (F2 l Hl). lia.
      * intros p Hp. specialize (F3 p Hp). destruct (snd p); try exact I. lia.
  - intros h' rd. unfold Phi. rewrite Eoofs, Epend, Ell, cntb_app, cntb_cons, cntb_nil. simpl calls_net.
    unfold holder, call_net. simpl.
    destruct (h =? h'); simpl; [|lia].
    unfold new, cnt, bit. destruct rd; cbn [of_rd of_wr]; [destruct (m_r acc)|destruct (m_w acc)]; try change (0 <? 1) with true; try change (0 <? 0) with false; cbv iota; lia.
Qed.

Lemma upgrade_ok : forall s other o acc,
  Inv s -> In o (st_oofs s) -> of_other o = other ->
  let s1 := w_ll s (mkCall (of_handle o) true acc :: st_ll s) in
  Inv (oofs_upgrade other acc s1) /\ forall h rd, Phi (oofs_upgrade other acc s1) h rd = Phi s h rd.
Proof.
  intros s other o acc [HK HU HF] Hin Hk s1. unfold oofs_upgrade.
  assert (Ef : find_oofs other s1 = Some o) by (change (find_oofs other s1) with (find_oofs other s); apply find_oofs_In; assumption).
  rewrite Ef.
  set (rd' := if m_r acc && negb (m_r (of_sa o)) then of_rd o + 1 else of_rd o).
  set (wr' := if m_w acc && negb (m_w (of_sa o)) then of_wr o + 1 else of_wr o).
  set (f := fun o0 : oofs => mkOofs (of_other o0) (next_seq (of_seq o0)) (of_client o0) (of_owner o0) (of_handle o0) (mask_or (of_sa o0) acc) rd' wr' (of_live o0)).
  set (s2 := upd_oofs other f s1).
  set (m := mkMask (m_r acc && (0 <? of_rd o)) (m_w acc && (0 <? of_wr o))).
  assert (U1 : U s1) by exact HU.
  assert (Ho2 : st_oofs s2 = upd_at other f (st_oofs s)) by (apply (upd_oofs_at other f s1 U1)).
  destruct (emit_close_view (of_handle o) m s2) as (V1&V2&V3&V4).
  destruct (emit_close_ll (of_handle o) m s2) as [calls [Hll Hnet]].
  change (st_lofs s2) with (st_lofs s) in V2. change (st_pending s2) with (st_pending s) in V3.
  change (st_rng s2) with (st_rng s) in V4. change (st_ll s2) with (mkCall (of_handle o) true acc :: st_ll s) in Hll.
  set (s3 := emit_close (of_handle o) m s2) in *.
  assert (Ho3 : st_oofs s3 = upd_at other f (st_oofs s)) by (rewrite V1; exact Ho2).
  assert (Hfk : forall x, of_other (f x) = of_other x) by reflexivity.
  pose proof (HK o true Hin) as Kr. pose proof (HK o false Hin) as Kw. unfold expected in Kr, Kw. simpl in Kr, Kw.
  assert (Ez : (if of_other o =? 0 then 0%Z else 0%Z) = 0%Z) by (destruct (of_other o =? 0); reflexivity).
  rewrite Ez in Kr, Kw. unfold b2z in Kr, Kw.
  pose proof (cntb_nonneg (lofs_on (of_other o) true) (st_lofs s)). pose proof (cntb_nonneg (io_on (of_other o) true) (st_pending s)).
  pose proof (cntb_nonneg (lofs_on (of_other o) false) (st_lofs s)). pose proof (cntb_nonneg (io_on (of_other o) false) (st_pending s)).
  split.
  - constructor.
    + eapply Kd_as_K. eapply (Kd_change s s3 other f (fun _ => 0%Z)); try eassumption.
      * intros k sa rd _. unfold expected. rewrite V2, V3. reflexivity.
      * apply K_as_Kd. exact HK.
      * intros x rd Hx Hxk Hc. assert (x = o) by (eapply (NoDup_key_eq of_other); try eassumption; [apply HU|congruence]).
        subst x. unfold expected in *. rewrite V2, V3. simpl of_sa.
        destruct rd; simpl cnt; simpl cnt in Hc; simpl bit in *; unfold rd', wr', b2z in *.
        -- destruct (m_r acc); destruct (m_r (of_sa o)); cbn [andb orb negb]; lia.
        -- destruct (m_w acc); destruct (m_w (of_sa o)); cbn [andb orb negb]; lia.
    + eapply (U_change s s3 other f); try eassumption.
    + eapply (Fr_change s s3 other f); try eassumption.
  - intros h rd. eapply (Phi_change s s3 other o f (calls ++ [mkCall (of_handle o) true acc])); try eassumption.
    + rewrite Hll, <- app_assoc. reflexivity.
    + rewrite calls_net_app, Hnet. simpl. unfold call_net, holder. simpl of_handle. simpl lc_h. simpl lc_open. simpl lc_mask.
      rewrite (N.eqb_sym (of_handle o) h). destruct (h =? of_handle o); simpl; [|reflexivity].
      unfold b2z in *. destruct rd; simpl cnt; simpl bit; unfold m, rd', wr'; simpl.
      * destruct (m_r acc); simpl; [|destruct (0 <? of_rd o); reflexivity].
        destruct (0 <? of_rd o) eqn:E0.
        -- apply N.ltb_lt in E0. destruct (m_r (of_sa o)); simpl.
           ++ assert (0 <? of_rd o = true) by (apply N.ltb_lt; lia). rewrite H3. reflexivity.
           ++ assert (0 <? of_rd o + 1 = true) by (apply N.ltb_lt; lia). rewrite H3. reflexivity.
        -- apply N.ltb_ge in E0. destruct (m_r (of_sa o)); simpl; [lia|].
           assert (0 <? of_rd o + 1 = true) by (apply N.ltb_lt; lia). rewrite H3. reflexivity.
      * destruct (m_w acc); simpl; [|destruct (0 <? of_wr o); reflexivity].
        destruct (0 <? of_wr o) eqn:E0.
        -- apply N.ltb_lt in E0. destruct (m_w (of_sa o)); simpl.
           ++ assert (0 <? of_wr o = true) by (apply N.ltb_lt; lia). rewrite H3. reflexivity.
           ++ assert (0 <? of_wr o + 1 = true) by (apply N.ltb_lt; lia). rewrite H3. reflexivity.
        -- apply N.ltb_ge in E0. destruct (m_w (of_sa o)); simpl; [lia|].
           assert (0 <? of_wr o + 1 = true) by (apply N.ltb_lt; lia). rewrite H3. reflexivity.
Qed.

(* ---- composing: [good s0 s] = s is reached from s0 keeping Inv and Phi ------------------------------------ *)
Definition good (s0 s : state) : Prop := Inv s0 -> Inv s /\ forall h rd, Phi s h rd = Phi s0 h rd.

Lemma good_refl : forall s, good s s.
Proof. intros s H. split; [assumption|reflexivity]. Qed.
Lemma good_view : forall s0 s1 s2, good s0 s1 -> view_eq s1 s2 -> good s0 s2.
Proof.
  intros s0 s1 s2 G V H. destruct (G H) as [I1 P1]. destruct (pres_of_view _ _ V I1) as [I2 P2].
  split; [assumption|]. intros. rewrite P2. apply P1.
Qed.
Lemma good_pres : forall f s0 s1, pres f -> good s0 s1 -> good s0 (f s1).
Proof.
  intros f s0 s1 Hf G H. destruct (G H) as [I1 P1]. destruct (Hf s1 I1) as [I2 P2].
  split; [assumption|]. intros. rewrite P2. apply P1.
Qed.
Lemma good_pres2 : forall {X} (f : state -> state * X) s0 s1, pres2 f -> good s0 s1 -> good s0 (fst (f s1)).
Proof.
  intros X f s0 s1 Hf G H. destruct (G H) as [I1 P1]. destruct (Hf s1 I1) as [I2 P2].
  split; [assumption|]. intros. rewrite P2. apply P1.
Qed.
Lemma good_step : forall s0 s1 s2, good s0 s1 -> good s1 s2 -> good s0 s2.
Proof.
  intros s0 s1 s2 G1 G2 H. destruct (G1 H) as [I1 P1]. destruct (G2 I1) as [I2 P2].
  split; [assumption|]. intros. rewrite P2. apply P1.
Qed.

Lemma good_w_rng : forall s0 s1 v, good s0 s1 -> st_rng s1 <= v -> good s0 (w_rng s1 v).
Proof.
  intros s0 s1 v G Hle H. destruct (G H) as [I1 P1]. destruct (w_rng_pres s1 v Hle I1) as [I2 P2].
  split; [assumption|]. intros. rewrite P2. apply P1.
Qed.

Ltac good_tac :=
  repeat first
    [ apply good_refl
    | assumption
    | match goal with
      | |- good _ (w_rng _ _) => apply good_w_rng; [|simpl; lia]
      | |- good _ (panic _) => eapply good_view; [|apply view_panic]
      | |- good _ (w_now _ _) => eapply good_view; [|apply view_w_now]
      | |- good _ (w_next_id _ _) => eapply good_view; [|apply view_w_next_id]
      | |- good _ (w_confs _ _) => eapply good_view; [|apply view_w_confs]
      | |- good _ (w_confirmed _ _) => eapply good_view; [|apply view_w_confirmed]
      | |- good _ (w_idle _ _) => eapply good_view; [|apply view_w_idle]
      | |- good _ (w_oos _ _) => eapply good_view; [|apply view_w_oos]
      | |- good _ (w_unused _ _) => eapply good_view; [|apply view_w_unused]
      | |- good _ (w_los _ _) => eapply good_view; [|apply view_w_los]
      | |- good _ (w_pool _ _) => eapply good_view; [|apply view_w_pool]
      | |- good _ (upd_conf _ _ _) => eapply good_view; [|apply view_upd_conf]
      | |- good _ (upd_oos _ _ _) => eapply good_view; [|apply view_upd_oos]
      | |- good _ (upd_los _ _ _) => eapply good_view; [|apply view_upd_los]
      | |- good _ (upd_pfile _ _ _) => eapply good_view; [|apply view_upd_pfile]
      | |- good _ (hold _ _) => eapply good_view; [|apply view_hold]
      | |- good _ (release _ _) => eapply good_view; [|apply view_release]
      | |- good _ (pool_open _ _) => eapply good_view; [|apply view_pool_open]
      | |- good _ (pool_close _ _) => eapply good_view; [|apply view_pool_close]
      | |- good _ (set_oos_last _ _ _) => eapply good_view; [|apply view_set_oos_last]
      | |- good _ (set_oos_intx _ _ _) => eapply good_view; [|apply view_set_oos_intx]
      | |- good _ (oos_complete_tx _ _ _ _) => eapply good_view; [|apply view_oos_complete_tx]
      | |- good _ (los_complete_tx _ _ _ _) => eapply good_view; [|apply view_los_complete_tx]
      | |- good _ (fst (los_start_tx _ _ _ _)) => eapply good_view; [|apply view_los_start_tx]
      | |- good _ (enter _ _) => apply (good_pres (enter _)); [apply enter_pres|]
      | |- good _ (conf_remove _ _) => apply (good_pres (conf_remove _)); [apply conf_remove_pres|]
      | |- good _ (lofs_remove _ _) => apply (good_pres (lofs_remove _)); [apply lofs_remove_pres|]
      | |- good _ (oofs_remove_start _ _) => apply (good_pres (oofs_remove_start _)); [apply oofs_remove_start_pres|]
      | |- good _ (oofs_finalize _ _) => apply (good_pres (oofs_finalize _)); [apply oofs_finalize_pres|]
      | |- good _ (forget_last _ _) => apply (good_pres (forget_last _)); [apply forget_last_pres|]
      | |- good _ (fst (oos_start_tx _ _ _ _)) => apply (good_pres2 (oos_start_tx _ _ _)); [apply oos_start_tx_pres|]
      | |- good _ (if ?c then _ else _) => destruct c
      | |- good _ (match ?x with _ => _ end) => destruct x
      end ].

(* ---- simple operations ---------------------------------------------------------------------------------------- *)
Lemma do_setclientid_good : forall t long cverf s, good s (fst (do_setclientid t long cverf s)).
Proof.
  intros t long cverf s. unfold do_setclientid.
  destruct (find_by _ (st_confs (enter t s))); simpl; [good_tac|].
  unfold draw. simpl. good_tac.
Qed.

(* ---- the table of parked calls only changes when a call parks or returns ------------------------------------- *)
Definition psame (f : state -> state) : Prop := forall s, st_pending (f s) = st_pending s.

Lemma psame_view : forall f, (forall s, view_eq s (f s)) -> psame f.
Proof. intros f H s. destruct (H s) as (_&_&E&_). exact E. Qed.

Lemma psame_fold : forall {A} (f : state -> A -> state) (l : list A),
  (forall a, psame (fun s => f s a)) -> psame (fun s => fold_left f l s).
Proof.
  intros A f l Hf. induction l as [|a tl IH]; intros s; simpl; [reflexivity|].
  rewrite (IH (f s a)). apply (Hf a).
Qed.

Lemma psame_emit_close : forall h m, psame (emit_close h m).
Proof. intros h m s. apply (emit_close_view h m s). Qed.

Lemma psame_oofs_release : forall other cleared, psame (oofs_release other cleared).
Proof.
  intros other cleared s. unfold oofs_release. destruct (find_oofs other s); [|reflexivity].
  destruct (dec_count (of_rd o) (m_r cleared)) as [[rd zr] pr]. destruct (dec_count (of_wr o) (m_w cleared)) as [[wr zw] pw].
  unfold gc_oofs. simpl. destruct (pr || pw); simpl; rewrite psame_emit_close; reflexivity.
Qed.

Lemma psame_oofs_set_sa : forall other m, psame (oofs_set_sa other m).
Proof. intros other m s. reflexivity. Qed.
Lemma psame_oofs_bump_seq : forall other, psame (oofs_bump_seq other).
Proof. intros other s. reflexivity. Qed.
Lemma psame_oofs_clone : forall other m, psame (oofs_clone other m).
Proof.
  intros other m s. unfold oofs_clone. destruct (find_oofs other s); [|reflexivity].
  destruct (inc_count (of_rd o) (m_r m)) as [rd pr]. destruct (inc_count (of_wr o) (m_w m)) as [wr pw].
  destruct (pr || pw); reflexivity.
Qed.
Lemma psame_oofs_upgrade : forall other acc, psame (oofs_upgrade other acc).
Proof.
  intros other acc s. unfold oofs_upgrade. destruct (find_oofs other s); [|reflexivity].
  rewrite psame_emit_close. reflexivity.
Qed.

Lemma psame_lofs_remove : forall other, psame (lofs_remove other).
Proof.
  intros other s. unfold lofs_remove. destruct (find_lofs other s) as [lf|]; [|reflexivity].
  match goal with |- st_pending (if _ then ?a else _) = _ => set (s2 := a) end.
  assert (E : st_pending s2 = st_pending s).
  { unfold s2. rewrite psame_oofs_release. simpl.
    destruct (0 <? lf_count lf)%Z; [|reflexivity].
    destruct (find_oofs (lf_oofs lf) s); [|reflexivity]. destruct (find_los (lf_client lf, lf_lokey lf) s); [|reflexivity].
    destruct (find_pfile (of_handle o) s); [|reflexivity].
    match goal with |- st_pending (if ?c then _ else _) = _ => destruct c end; reflexivity. }
  destruct (existsb _ _); [exact E|simpl; exact E].
Qed.

Lemma psame_oofs_remove_start : forall other, psame (oofs_remove_start other).
Proof.
  intros other s. unfold oofs_remove_start.
  pose proof (psame_fold (fun s o => lofs_remove o s) (lofs_others_of_oofs other s) (fun a => psame_lofs_remove a) s) as E.
  cbv beta in E. destruct (find_oofs other _); [|simpl; exact E].
  rewrite psame_oofs_set_sa, psame_oofs_release. exact E.
Qed.

Lemma psame_oofs_finalize : forall other, psame (oofs_finalize other).
Proof.
  intros other s. unfold oofs_finalize. destruct (find_oofs other s); [|reflexivity].
  destruct (of_live o); [|reflexivity].
  unfold gc_oofs. simpl. rewrite (psame_view _ (view_pool_close (of_handle o))). reflexivity.
Qed.

Lemma psame_forget_last : forall ck, psame (forget_last ck).
Proof.
  intros ck s. unfold forget_last. destruct (find_oos ck s); [|reflexivity]. destruct (oo_last o); [|reflexivity].
  destruct (ca_closed c); [rewrite psame_oofs_finalize|]; reflexivity.
Qed.

Lemma psame_oos_reinit : forall ck, psame (oos_reinit ck).
Proof.
  intros ck s. unfold oos_reinit.
  set (s0 := match find_oos ck s with Some o => if oo_intx o then panic s else s | None => s end).
  assert (E0 : st_pending s0 = st_pending s) by (unfold s0; destruct (find_oos ck s); [destruct (oo_intx o)|]; reflexivity).
  pose proof (psame_fold (fun s o => oofs_finalize o (oofs_remove_start o s)) (oofs_others_of_owner ck (forget_last ck s0))
                (fun a s => eq_trans (psame_oofs_finalize a _) (psame_oofs_remove_start a s)) (forget_last ck s0)) as E.
  cbv beta in E. rewrite E, psame_forget_last. exact E0.
Qed.

Lemma psame_oos_remove : forall ck, psame (oos_remove ck).
Proof. intros ck s. unfold oos_remove. simpl. apply psame_oos_reinit. Qed.

Lemma psame_conf_remove : forall short, psame (conf_remove short).
Proof.
  intros short s. unfold conf_remove. destruct (find_conf short s); [|reflexivity]. simpl.
  set (s0 := if cf_hold c =? 0 then s else panic s).
  assert (E0 : st_pending s0 = st_pending s) by (unfold s0; destruct (cf_hold c =? 0); reflexivity).
  destruct (confirmed_of (cf_long c) s0); [|exact E0]. destruct (n =? short); [|exact E0].
  simpl. match goal with |- st_pending (if _ then panic ?a else ?a) = _ => assert (E : st_pending a = st_pending s0) end.
  { apply (psame_fold (fun s ck => oos_remove ck s) _ (fun a => psame_oos_remove a)). }
  destruct (existsb _ _); simpl; rewrite E; exact E0.
Qed.

Lemma psame_expire_confs : forall fuel minseen, psame (expire_confs fuel minseen).
Proof.
  induction fuel as [|fuel IH]; intros minseen s; simpl; [reflexivity|].
  destruct (st_idle s); [reflexivity|]. destruct (find_conf n s); [|reflexivity].
  destruct (cf_lastseen c <? minseen)%Z; [|reflexivity]. rewrite IH. apply psame_conf_remove.
Qed.
Lemma psame_expire_oos : forall fuel minseen, psame (expire_oos fuel minseen).
Proof.
  induction fuel as [|fuel IH]; intros minseen s; simpl; [reflexivity|].
  destruct (st_unused s); [reflexivity|]. destruct (find_oos p s); [|reflexivity].
  destruct (oo_lastused o <? minseen)%Z; [|reflexivity]. rewrite IH. apply psame_oos_remove.
Qed.
Lemma psame_enter : forall t, psame (enter t).
Proof. intros t s. unfold enter. rewrite psame_expire_oos, psame_expire_confs. reflexivity. Qed.

Lemma psame_oos_start_tx : forall ck seq pol s, st_pending (fst (oos_start_tx ck seq pol s)) = st_pending s.
Proof.
  intros ck seq pol s. unfold oos_start_tx. destruct (find_oos ck s); [|reflexivity].
  set (s0 := if oo_intx o then panic s else s).
  assert (E0 : st_pending s0 = st_pending s) by (unfold s0; destruct (oo_intx o); reflexivity).
  destruct (match oo_last o with Some c => if seq =? oo_lastseq o then Some c else None | None => None end); [exact E0|].
  assert (Hmid : forall s1 (fail : bool), st_pending s1 = st_pending s ->
            st_pending (fst (if fail then (s1, TxFail ERR_BAD_SEQID)
                     else (hold (fst ck) (w_unused (set_oos_intx ck true (forget_last ck s1))
                                                   (del_by (pair_eqb ck) (st_unused (set_oos_intx ck true (forget_last ck s1))))), TxStarted))) = st_pending s).
  { intros s1 fail E1. destruct fail; simpl; [exact E1|].
    rewrite (psame_view _ (view_hold (fst ck))). simpl. rewrite psame_forget_last. exact E1. }
  destruct (oo_confirmed o); [apply Hmid; exact E0|].
  destruct pol; [apply Hmid; exact E0|apply (Hmid s0 true); exact E0|].
  apply (Hmid (oos_reinit ck s0) false). rewrite psame_oos_reinit. exact E0.
Qed.

(* ---- operations --------------------------------------------------------------------------------------------------- *)
Lemma good_fold_lofs_remove : forall l s0 s1, good s0 s1 -> good s0 (fold_left (fun s o => lofs_remove o s) l s1).
Proof.
  intros l s0 s1 G. apply (good_pres (fun s => fold_left (fun s o => lofs_remove o s) l s)); [|assumption].
  apply pres_fold_left. intros a. apply lofs_remove_pres.
Qed.

Lemma do_setclientid_confirm_good : forall t short sverf s, good s (fst (do_setclientid_confirm t short sverf s)).
Proof.
  intros t short sverf s. unfold do_setclientid_confirm.
  destruct (find_by _ (st_confs (enter t s))); simpl; [|good_tac].
  destruct (confirmed_of (cf_long c) (enter t s)).
  - destruct (n =? short); simpl; [good_tac|].
    destruct (find_conf n (hold short (enter t s))); simpl; [|good_tac].
    destruct (0 <? cf_hold c0); simpl; good_tac.
  - simpl. good_tac.
Qed.

Lemma do_renew_good : forall t short s, good s (fst (do_renew t short s)).
Proof. intros. unfold do_renew. destruct (confirmed_client short (enter t s)); simpl; good_tac. Qed.

Lemma do_lockt_good : forall t c ltype off len client owner s, good s (fst (do_lockt t c ltype off len client owner s)).
Proof.
  intros. unfold do_lockt. destruct c; simpl; try apply good_refl.
  destruct (confirmed_client client (enter t s)); simpl; good_tac.
Qed.

Lemma do_release_lockowner_good : forall t client owner s, good s (fst (do_release_lockowner t client owner s)).
Proof.
  intros. unfold do_release_lockowner. destruct (confirmed_client client (enter t s)); simpl; [|good_tac].
  destruct (find_los (client, owner) (hold client (enter t s))); simpl; [|good_tac].
  destruct (existsb _ _); simpl; [good_tac|].
  eapply good_view; [|apply view_release].
  match goal with |- good _ (match find_los _ ?x with _ => _ end) => assert (G : good s x) end.
  { apply good_fold_lofs_remove. good_tac. }
  destruct (find_los _ _); [eapply good_view; [exact G|apply view_panic]|exact G].
Qed.

(* byte-range lock operations only change lock counts, lock state ID seqids and the pool *)
Lemma tx_lock_common_good : forall lfother ltype off len s0 s, good s0 s -> good s0 (fst (tx_lock_common lfother ltype off len s)).
Proof.
  intros lfother ltype off len s0 s G. unfold tx_lock_common.
  destruct (find_lofs lfother s) as [lf|]; simpl; [|good_tac].
  destruct (find_oofs (lf_oofs lf) s); simpl; [|good_tac]. destruct (find_los _ s); simpl; [|good_tac].
  destruct (find_pfile (of_handle o) s); simpl; [|good_tac].
  destruct (LS.offset_length_to_start_end off len) as [[st en]|]; simpl; [|assumption].
  destruct (lock_type ltype); simpl; [|assumption].
  destruct (LS.test _ _); simpl; [assumption|].
  intros H.
  match goal with |- Inv (upd_lofs _ ?f ?x) /\ _ => assert (Gx : good s0 x) end.
  { good_tac. }
  destruct (Gx H) as [I1 P1].
  match goal with |- Inv (upd_lofs ?a ?f ?x) /\ _ => destruct (upd_lofs_pres a f x) as [I2 P2] end.
  - intros l'. repeat split; reflexivity.
  - exact I1.
  - split; [exact I2|]. intros. rewrite P2. apply P1.
Qed.

Lemma tx_locku_good : forall off len c sq other s0 s, good s0 s -> good s0 (fst (tx_locku off len c sq other s)).
Proof.
  intros off len c sq other s0 s G. unfold tx_locku.
  destruct (get_lofs sq other c s) as [lf|]; simpl; [|assumption].
  destruct (find_oofs (lf_oofs lf) s); simpl; [|good_tac]. destruct (find_los _ s); simpl; [|good_tac].
  destruct (find_pfile (of_handle o) s); simpl; [|good_tac].
  destruct (LS.offset_length_to_start_end off len) as [[st en]|]; simpl; [|assumption].
  intros H.
  match goal with |- Inv (upd_lofs _ ?f ?x) /\ _ => assert (Gx : good s0 x) end.
  { good_tac. }
  destruct (Gx H) as [I1 P1].
  match goal with |- Inv (upd_lofs ?a ?f ?x) /\ _ => destruct (upd_lofs_pres a f x) as [I2 P2] end.
  - intros l'. repeat split; reflexivity.
  - exact I1.
  - split; [exact I2|]. intros. rewrite P2. apply P1.
Qed.

Lemma lock_owner_op_good : forall t k lsid seq body s,
  (forall sq other s1, good s s1 -> good s (fst (body sq other s1))) ->
  good s (fst (lock_owner_op t k lsid seq body s)).
Proof.
  intros t k lsid seq body s Hb. unfold lock_owner_op.
  destruct (internalize_regular lsid); simpl; try good_tac.
  destruct (find_lofs other (enter t s)) as [lf|]; simpl; [|good_tac].
  pose proof (view_los_start_tx (lf_client lf, lf_lokey lf) seq false (enter t s)) as V.
  destruct (los_start_tx (lf_client lf, lf_lokey lf) seq false (enter t s)) as [s1 r]. simpl in V.
  assert (G1 : good s s1) by (eapply good_view; [|exact V]; good_tac).
  destruct r; simpl; try exact G1.
  specialize (Hb seq0 other s1 G1). destruct (body seq0 other s1) as [s2 res]. simpl in *.
  eapply good_view; [exact Hb|apply view_los_complete_tx].
Qed.

Lemma find_live_oofs_In : forall other s o, find_live_oofs other s = Some o -> In o (st_oofs s) /\ of_other o = other.
Proof.
  intros other s o H. apply find_by_In in H. destruct H as [Hin Hk]. apply andb_prop in Hk. destruct Hk as [Hk _].
  apply N.eqb_eq in Hk. tauto.
Qed.

Lemma get_oofs_In : forall sq other allow c s o, get_oofs sq other allow c s = inl o -> In o (st_oofs s) /\ of_other o = other.
Proof.
  intros sq other allow c s o H. unfold get_oofs in H.
  destruct (find_live_oofs other s) as [o'|] eqn:E; [|discriminate].
  apply find_live_oofs_In in E.
  destruct c; try discriminate;
  repeat match type of H with (if ?b then _ else _) = _ => destruct b; try discriminate end;
  inversion H; subst; exact E.
Qed.

Lemma oofs_bump_seq_pres : forall other, pres (oofs_bump_seq other).
Proof.
  intros other s [HK HU HF]. destruct (oofs_bump_seq_ok other s 0 (fun _ => 0%Z) HU HF HK) as (K1&U1&F1&P1).
  split; [constructor; assumption|exact P1].
Qed.

Lemma tx_open_confirm_good : forall sid c s0 s, good s0 s -> good s0 (fst (fst (tx_open_confirm sid c s))).
Proof.
  intros sid c s0 s G. unfold tx_open_confirm. destruct (internalize_regular sid); simpl; try assumption.
  destruct (get_oofs seq other true c s); simpl; [|assumption].
  apply (good_pres (oofs_bump_seq other)); [apply oofs_bump_seq_pres|]. good_tac.
Qed.

Lemma tx_close_good : forall sid c s0 s, good s0 s -> good s0 (fst (fst (tx_close sid c s))).
Proof.
  intros sid c s0 s G. unfold tx_close. destruct (internalize_regular sid); simpl; try assumption.
  destruct (get_oofs seq other false c s); simpl; [|assumption].
  apply (good_pres (oofs_bump_seq other)); [apply oofs_bump_seq_pres|]. good_tac.
Qed.

Lemma tx_open_downgrade_good : forall sid access deny c s0 s, good s0 s -> good s0 (fst (fst (tx_open_downgrade sid access deny c s))).
Proof.
  intros sid access deny c s0 s G. unfold tx_open_downgrade. destruct (internalize_regular sid); simpl; try assumption.
  destruct (get_oofs seq other false c s) as [o|] eqn:Eg; simpl; [|assumption].
  destruct (access_to_mask access) as [acc|]; simpl; [|assumption].
  destruct (negb (mask_subset acc (of_sa o)) || negb (deny =? 0)) eqn:Ec; simpl; [assumption|].
  apply Bool.orb_false_iff in Ec. destruct Ec as [Ec _]. apply Bool.negb_false_iff in Ec.
  apply (good_pres (oofs_bump_seq other)); [apply oofs_bump_seq_pres|].
  intros H0. destruct (G H0) as [I1 P1].
  destruct (get_oofs_In _ _ _ _ _ _ Eg) as [Hin Hk].
  pose proof (release_then_set_pres other acc s I1) as R. cbv beta in R.
  rewrite (find_oofs_In other s o (inv_U s I1) Hin Hk), Ec in R. destruct R as [I2 P2].
  split; [exact I2|]. intros. rewrite P2. apply P1.
Qed.

Lemma rng_oofs_clone : forall other m s, st_rng (oofs_clone other m s) = st_rng s.
Proof.
  intros other m s. unfold oofs_clone. destruct (find_oofs other s); [|reflexivity].
  destruct (inc_count (of_rd o) (m_r m)) as [rd pr]. destruct (inc_count (of_wr o) (m_w m)) as [wr pw].
  destruct (pr || pw); reflexivity.
Qed.

Lemma lofs_oofs_clone : forall other m s, st_lofs (oofs_clone other m s) = st_lofs s.
Proof.
  intros other m s. unfold oofs_clone. destruct (find_oofs other s); [|reflexivity].
  destruct (inc_count (of_rd o) (m_r m)) as [rd pr]. destruct (inc_count (of_wr o) (m_w m)) as [wr pw].
  destruct (pr || pw); reflexivity.
Qed.

Lemma K_pos_sa : forall s o rd, K s -> In o (st_oofs s) -> bit rd (of_sa o) = true -> 0 < cnt rd o.
Proof.
  intros s o rd HK Hin Hb. eapply (Kd_pos s (of_other o) (fun _ => 0%Z)); try eassumption; [apply K_as_Kd; assumption|reflexivity|].
  rewrite Hb. simpl. lia.
Qed.

(* clone the open-owner file's share reservation into a new lock-owner file *)
Lemma clone_add_lofs_good : forall s o other cl lokey,
  Inv s -> In o (st_oofs s) -> of_other o = other ->
  let s1 := oofs_clone other (of_sa o) s in
  let s2 := snd (draw s1) in
  let s3 := w_lofs s2 (st_lofs s2 ++ [mkLofs (fst (draw s1)) 0 cl lokey other (of_sa o) 0]) in
  Inv s3 /\ forall h rd, Phi s3 h rd = Phi s h rd.
Proof.
  intros s o other cl lokey HI Hin Hk s1 s2 s3.
  destruct (oofs_clone_ok other (of_sa o) s o HI Hin Hk) as (K1&U1&F1&P1).
  { intros rd Hb. apply (K_pos_sa s o rd); [apply HI|assumption|assumption]. }
  fold s1 in K1, U1, F1, P1.
  assert (Er : st_rng s1 = st_rng s) by apply rng_oofs_clone.
  assert (K2 : Kd s2 other (fun rd => b2z (bit rd (of_sa o)))) by exact K1.
  assert (U2 : U s2) by exact U1.
  assert (F2 : Fr s2).
  { destruct F1 as (A&B&C). unfold Fr, s2, draw. simpl. split; [|split].
    - intros x Hx. specialize (A x Hx). lia.
    - intros l Hl. specialize (B l Hl). lia.
    - intros p Hp. specialize (C p Hp). destruct (snd p); try exact I. lia. }
  set (lf := mkLofs (fst (draw s1)) 0 cl lokey other (of_sa o) 0) in *.
  assert (Elf : lf_other lf = st_rng s1) by reflexivity.
  destruct (add_lofs_ok s2 lf) as [I3 P3]; try assumption.
  - intros l Hl Heq. destruct F1 as (_&B&_). change (st_lofs s2) with (st_lofs s1) in Hl. specialize (B l Hl).
    rewrite Elf in Heq. lia.
  - rewrite Elf. unfold s2, draw. simpl. lia.
  - simpl. unfold s2, draw. simpl. rewrite Er. destruct HI as [_ _ (A&_&_)]. specialize (A o Hin). lia.
  - split; [exact I3|]. intros. rewrite P3. apply P1.
Qed.

Lemma tx_lock_initial_good : forall ltype off len osid lseq lclient lowner c s0 s,
  good s0 s -> good s0 (fst (fst (tx_lock_initial ltype off len osid lseq lclient lowner c s))).
Proof.
  intros ltype off len osid lseq lclient lowner c s0 s G. unfold tx_lock_initial.
  destruct (internalize_regular osid); simpl; try assumption.
  destruct (get_oofs seq other false c s) as [o|] eqn:Eg; simpl; [|assumption].
  destruct (negb (lclient =? of_client o)); simpl; [assumption|].
  destruct (get_oofs_In _ _ _ _ _ _ Eg) as [Hin Hk].
  set (lk := (of_client o, lowner)).
  set (pre := match find_los lk s with
              | None => (w_next_id (w_los s (st_los s ++ [mkLos (of_client o) lowner (st_next_id s) 0 None])) (st_next_id s + 1), true, false)
              | Some _ => (s, false, existsb (fun l => (lf_oofs l =? other) && lofs_of_los lk l) (st_lofs s))
              end).
  assert (Vpre : view_eq s (fst (fst pre))).
  { unfold pre. destruct (find_los lk s); simpl; [apply view_eq_refl|].
    eapply view_eq_trans; [apply view_w_los|apply view_w_next_id]. }
  destruct pre as [[sa initial] dup]. simpl in Vpre.
  destruct dup; simpl; [eapply good_view; eassumption|].
  pose proof (view_los_start_tx lk lseq initial sa) as Vb.
  destruct (los_start_tx lk lseq initial sa) as [sb r]. simpl in Vb.
  assert (Vsb : view_eq s sb) by (eapply view_eq_trans; eassumption).
  assert (Gb : good s0 sb) by (eapply good_view; eassumption).
  destruct r; simpl; [exact Gb|destruct initial; [eapply good_view; [exact Gb|apply view_panic]|exact Gb]|].
  (* TxStarted *)
  assert (Hinb : In o (st_oofs sb)) by (destruct Vsb as (E&_); rewrite E; exact Hin).
  assert (Gd : good s0 (w_lofs (snd (draw (oofs_clone other (of_sa o) sb)))
                          (st_lofs (snd (draw (oofs_clone other (of_sa o) sb)))
                           ++ [mkLofs (fst (draw (oofs_clone other (of_sa o) sb))) 0 (fst lk) (snd lk) other (of_sa o) 0]))).
  { intros H0. destruct (Gb H0) as [Ib Pb].
    destruct (clone_add_lofs_good sb o other (fst lk) (snd lk) Ib Hinb Hk) as [Id Pd].
    split; [exact Id|]. intros. rewrite Pd. apply Pb. }
  unfold draw in *. simpl in *.
  set (sd := w_lofs _ _) in *.
  pose proof (tx_lock_common_good (st_rng (oofs_clone other (of_sa o) sb)) ltype off len s0 sd Gd) as Ge.
  destruct (tx_lock_common (st_rng (oofs_clone other (of_sa o) sb)) ltype off len sd) as [se res]. simpl in Ge.
  assert (Gf : good s0 (los_complete_tx lk lseq (mkCached KLock res None) se)) by (eapply good_view; [exact Ge|apply view_los_complete_tx]).
  destruct (status_of res =? NFS4_OK); simpl; [exact Gf|].
  assert (Gg : good s0 (lofs_remove (st_rng (oofs_clone other (of_sa o) sb)) (los_complete_tx lk lseq (mkCached KLock res None) se))).
  { apply (good_pres (lofs_remove _)); [apply lofs_remove_pres|exact Gf]. }
  destruct (Nat.eqb _ _); [exact Gg|eapply good_view; [exact Gg|apply view_panic]].
Qed.

Lemma owner_op_good : forall t ef k sid seq pol body s,
  (forall s1, good s s1 -> good s (fst (fst (body s1)))) ->
  good s (fst (owner_op t ef k sid seq pol body s)).
Proof.
  intros t ef k sid seq pol body s Hb. unfold owner_op.
  assert (G0 : good s (if ef then enter t s else s)) by (destruct ef; good_tac).
  destruct (internalize_regular sid); simpl; try exact G0.
  assert (G1 : good s (if ef then (if ef then enter t s else s) else enter t (if ef then enter t s else s))) by (destruct ef; good_tac).
  set (s1 := if ef then (if ef then enter t s else s) else enter t (if ef then enter t s else s)) in *.
  destruct (find_live_oofs other s1) as [o|]; simpl; [|exact G1].
  destruct (match find_oos (of_client o, of_owner o) s1 with Some oo => oo_intx oo | None => false end); simpl; [exact G1|].
  pose proof (good_pres2 (oos_start_tx (of_client o, of_owner o) seq pol) s s1 (oos_start_tx_pres _ _ _) G1) as G2.
  destruct (oos_start_tx (of_client o, of_owner o) seq pol s1) as [s2 r]. simpl in G2.
  destruct r; simpl; try exact G2.
  specialize (Hb s2 G2). destruct (body s2) as [[s3 res] closed]. simpl in *.
  eapply good_view; [exact Hb|apply view_oos_complete_tx].
Qed.

Definition fresh (g : N) (s : state) : Prop := ~ In g (map fst (st_pending s)).

Lemma fresh_of_existsb : forall g s, existsb (fun p => fst p =? g) (st_pending s) = false -> fresh g s.
Proof.
  intros g s H Hin. apply in_map_iff in Hin. destruct Hin as [p [E Hp]].
  assert (existsb (fun p => fst p =? g) (st_pending s) = true).
  { apply existsb_exists. exists p. split; [assumption|]. apply N.eqb_eq. assumption. }
  congruence.
Qed.

Lemma fresh_eq : forall g s s', st_pending s' = st_pending s -> fresh g s -> fresh g s'.
Proof. unfold fresh. intros g s s' E. rewrite E. tauto. Qed.

Lemma do_open_body_good : forall g c a s0 s, fresh g s -> good s0 s -> good s0 (fst (do_open_body g c a s)).
Proof.
  intros g c a s0 s Hfr G. unfold do_open_body.
  destruct (negb (confirmed_client (oa_client a) s)); [exact G|].
  cbv zeta.
  set (ck := (oa_client a, oa_owner a)).
  set (s1 := match find_oos ck s with Some _ => s | None => w_oos s (st_oos s ++ [mkOos (fst ck) (snd ck) false 0 None false 0]) end).
  assert (V1 : view_eq s s1) by (unfold s1; destruct (find_oos ck s); [apply view_eq_refl|apply view_w_oos]).
  assert (G1 : good s0 s1) by (eapply good_view; eassumption).
  destruct (find_oos ck s1) as [o|]; [|eapply good_view; [exact G1|apply view_panic]].
  destruct (oo_intx o); [exact G1|].
  pose proof (good_pres2 (oos_start_tx ck (oa_seq a) PolReinit) s0 s1 (oos_start_tx_pres _ _ _) G1) as G2.
  pose proof (psame_oos_start_tx ck (oa_seq a) PolReinit s1) as E2.
  destruct (oos_start_tx ck (oa_seq a) PolReinit s1) as [s2 r]. cbn [fst] in G2, E2.
  destruct r; try exact G2.
  destruct (tx_open_start a ck c s2) as [res|p] eqn:Et.
  - cbn [fst]. eapply good_view; [exact G2|apply view_oos_complete_tx].
  - assert (Hfr2 : fresh g s2).
    { apply (fresh_eq g s); [|exact Hfr]. rewrite E2. destruct V1 as (_&_&E&_). exact E. }
    assert (Hp : exists cl key seq acc prev, p = POpen cl key seq acc prev (st_ll s2)).
    { unfold tx_open_start in Et.
      destruct (access_to_mask (oa_access a)); [|discriminate].
      destruct (oa_deny a =? 0); [|destruct (oa_deny a <=? 3); discriminate].
      destruct (oa_claim a) as [nm|deleg| |]; try discriminate.
      - destruct c; try discriminate. destruct nm; try discriminate. inversion Et. repeat eexists.
      - destruct c; try discriminate. destruct (find_by _ (st_oofs s2)); [|discriminate].
        destruct (negb (deleg =? 0)); [discriminate|]. destruct (oa_how a); try discriminate; inversion Et; repeat eexists. }
    destruct Hp as (cl&key&seq&acc&prev&->). cbn [fst].
    intros H0. destruct (G2 H0) as [I2 P2].
    destruct (add_popen_ok s2 g cl key seq acc prev I2 Hfr2) as [I3 P3].
    split; [exact I3|]. intros. rewrite P3. apply P2.
Qed.

