(* Correspondence evaluator for the NFSv4.0 program: the monitor of Spec.v
   on the implementation's trace (violation) and the model of Model.v run on
   the same events, compared on reply, leaf calls and state dump (mismatch). *)
From VF Require Import Common.Verdict Nfs40.Model Nfs40.Dump Nfs40.Spec.
Open Scope N_scope.

(* The harness writes each dump as the list of tables that changed since the
   previous event. *)
Inductive dfield :=
| DNow (v : Z) | DConfs (v : list conf) | DConfirmed (v : list (N * N)) | DIdle (v : list N)
| DOos (v : list oos) | DUnused (v : list (N * N)) | DOofs (v : list oofs) | DLos (v : list dlos)
| DLofs (v : list lofs) | DPool (v : list dpfile).
Definition apply_field (d : dump) (f : dfield) : dump :=
  match f with
  | DNow v => mkDump v (d_confs d) (d_confirmed d) (d_idle d) (d_oos d) (d_unused d) (d_oofs d) (d_los d) (d_lofs d) (d_pool d)
  | DConfs v => mkDump (d_now d) v (d_confirmed d) (d_idle d) (d_oos d) (d_unused d) (d_oofs d) (d_los d) (d_lofs d) (d_pool d)
  | DConfirmed v => mkDump (d_now d) (d_confs d) v (d_idle d) (d_oos d) (d_unused d) (d_oofs d) (d_los d) (d_lofs d) (d_pool d)
  | DIdle v => mkDump (d_now d) (d_confs d) (d_confirmed d) v (d_oos d) (d_unused d) (d_oofs d) (d_los d) (d_lofs d) (d_pool d)
  | DOos v => mkDump (d_now d) (d_confs d) (d_confirmed d) (d_idle d) v (d_unused d) (d_oofs d) (d_los d) (d_lofs d) (d_pool d)
  | DUnused v => mkDump (d_now d) (d_confs d) (d_confirmed d) (d_idle d) (d_oos d) v (d_oofs d) (d_los d) (d_lofs d) (d_pool d)
  | DOofs v => mkDump (d_now d) (d_confs d) (d_confirmed d) (d_idle d) (d_oos d) (d_unused d) v (d_los d) (d_lofs d) (d_pool d)
  | DLos v => mkDump (d_now d) (d_confs d) (d_confirmed d) (d_idle d) (d_oos d) (d_unused d) (d_oofs d) v (d_lofs d) (d_pool d)
  | DLofs v => mkDump (d_now d) (d_confs d) (d_confirmed d) (d_idle d) (d_oos d) (d_unused d) (d_oofs d) (d_los d) v (d_pool d)
  | DPool v => mkDump (d_now d) (d_confs d) (d_confirmed d) (d_idle d) (d_oos d) (d_unused d) (d_oofs d) (d_los d) (d_lofs d) v
  end.
Record iobs := mkIobs { io_ev : event; io_reply : reply; io_hash : N; io_calls : list leafcall; io_delta : list dfield }.
Fixpoint expand (d : dump) (l : list iobs) : list obs :=
  match l with
  | [] => []
  | x :: tl => let d' := fold_left apply_field (io_delta x) d in
               mkObs (io_ev x) (io_reply x) (io_hash x) (io_calls x) d' :: expand d' tl
  end.
Record case := mkCase { c_items : list iobs }.
Definition c_trace (c : case) : list obs := expand (empty_dump 0) (c_items c).

Fixpoint viol_from (i : nat) (m : mon) (tr : list obs) : verdict :=
  match tr with
  | [] => VOk
  | ob :: tl => let '(m', e) := mon_step m ob in
                if String.eqb e ""%string then viol_from (S i) m' tl else VViolation i e
  end.

Fixpoint mism_from (i : nat) (s : state) (tr : list obs) : verdict :=
  match tr with
  | [] => VOk
  | ob :: tl =>
    let '(s', o) := step s (ob_ev ob) in
    if negb (reply_eqb (o_reply o) (ob_reply ob)) then VMismatch i "reply"
    else if negb (calls_eqb (o_calls o) (ob_calls ob)) then VMismatch i "leaf-calls"
    else let d := dump_diff (dump_of s') (ob_dump ob) in
         if String.eqb d ""%string then mism_from (S i) s' tl
         else VMismatch i (String.append "dump:" d)
  end.

Definition check_case (c : case) : verdict :=
  vcombine (viol_from 0 mon_init (c_trace c)) (mism_from 0 init (c_trace c)).
