(* Properties C18, C19, C20 for the NFSv4.0 program as decidable predicates
   over observable traces.  One trace item = one critical-section event,
   the reply it produced, the calls made on the instrumented leaves and the
   dump of the program state (hook VerifDump40) afterwards.  [mon_step] is
   the monitor: it is evaluated by Corr.v on the implementation's trace and
   it is the predicate the theorems in Properties*.v speak about. *)
From VF Require Export Nfs40.Model Nfs40.Dump.
From VF Require LockSet.Spec.
Module LSS := VF.LockSet.Spec.
Open Scope N_scope.

Record obs := mkObs { ob_ev : event; ob_reply : reply; ob_hash : N;
                      ob_calls : list leafcall; ob_dump : dump }.

(* ---- decidable equality on requests ------------------------------------- *)
Definition sother_eqb (a b : sother) : bool :=
  match a, b with
  | SoAnon, SoAnon | SoBypass, SoBypass | SoStale, SoStale => true
  | SoReg x, SoReg y => x =? y
  | _, _ => false
  end.
Definition sid_eqb (a b : stateid) : bool := (sid_seq a =? sid_seq b) && sother_eqb (sid_other a) (sid_other b).
Definition name_eqb (a b : nameclass) : bool :=
  match a, b with NmEmpty, NmEmpty | NmBad, NmBad => true | NmOk x, NmOk y => x =? y | _, _ => false end.
Definition how_eqb (a b : openhow) : bool :=
  match a, b with
  | HowNoCreate, HowNoCreate | HowUnchecked, HowUnchecked | HowGuarded, HowGuarded | HowExclusive, HowExclusive => true
  | _, _ => false
  end.
Definition claim_eqb (a b : claim) : bool :=
  match a, b with
  | ClNull x, ClNull y => name_eqb x y
  | ClPrev x, ClPrev y => x =? y
  | ClDelegCur, ClDelegCur | ClDelegPrev, ClDelegPrev => true
  | _, _ => false
  end.
Definition open_args_eqb (a b : open_args) : bool :=
  (oa_client a =? oa_client b) && (oa_owner a =? oa_owner b) && (oa_seq a =? oa_seq b)
  && (oa_access a =? oa_access b) && (oa_deny a =? oa_deny b) && how_eqb (oa_how a) (oa_how b)
  && claim_eqb (oa_claim a) (oa_claim b).
Definition iokind_eqb (a b : iokind) : bool :=
  match a, b with IoRead, IoRead | IoWrite, IoWrite | IoSetattr, IoSetattr => true | _, _ => false end.
Definition req_eqb (a b : req) : bool :=
  match a, b with
  | RSetClientId a1 a2, RSetClientId b1 b2 => (a1 =? b1) && (a2 =? b2)
  | RSetClientIdConfirm a1 a2, RSetClientIdConfirm b1 b2 => (a1 =? b1) && (a2 =? b2)
  | RRenew x, RRenew y => x =? y
  | ROpen x, ROpen y => open_args_eqb x y
  | ROpenConfirm s1 q1, ROpenConfirm s2 q2 => sid_eqb s1 s2 && (q1 =? q2)
  | ROpenDowngrade s1 q1 a1 d1, ROpenDowngrade s2 q2 a2 d2 => sid_eqb s1 s2 && (q1 =? q2) && (a1 =? a2) && (d1 =? d2)
  | RClose s1 q1, RClose s2 q2 => sid_eqb s1 s2 && (q1 =? q2)
  | RLockNew t1 o1 l1 s1 q1 r1 c1 w1, RLockNew t2 o2 l2 s2 q2 r2 c2 w2 =>
      (t1 =? t2) && (o1 =? o2) && (l1 =? l2) && sid_eqb s1 s2 && (q1 =? q2) && (r1 =? r2) && (c1 =? c2) && (w1 =? w2)
  | RLockOld t1 o1 l1 s1 q1, RLockOld t2 o2 l2 s2 q2 => (t1 =? t2) && (o1 =? o2) && (l1 =? l2) && sid_eqb s1 s2 && (q1 =? q2)
  | RLockT t1 o1 l1 c1 w1, RLockT t2 o2 l2 c2 w2 => (t1 =? t2) && (o1 =? o2) && (l1 =? l2) && (c1 =? c2) && (w1 =? w2)
  | RLockU t1 q1 s1 o1 l1, RLockU t2 q2 s2 o2 l2 => (t1 =? t2) && (q1 =? q2) && sid_eqb s1 s2 && (o1 =? o2) && (l1 =? l2)
  | RReleaseLockOwner c1 w1, RReleaseLockOwner c2 w2 => (c1 =? c2) && (w1 =? w2)
  | RIo k1 s1 a1 b1, RIo k2 s2 a2 b2 => iokind_eqb k1 k2 && sid_eqb s1 s2 && (a1 =? a2) && (b1 =? b2)
  | RResolve, RResolve => true
  | _, _ => false
  end.
Definition reply_eqb (a b : reply) : bool :=
  match a, b with
  | RpPutfhFail x, RpPutfhFail y => x =? y
  | RpOp x, RpOp y => opres_eqb x y
  | RpParkedOpen, RpParkedOpen | RpParkedIo, RpParkedIo | RpBlocked, RpBlocked | RpPanic, RpPanic | RpHang, RpHang => true
  | _, _ => false
  end.

(* ---- canonical order of leaf calls --------------------------------------- *)
Definition call_key (c : leafcall) : N :=
  lc_h c * 8 + (if lc_open c then 0 else 4) + (if m_r (lc_mask c) then 1 else 0) + (if m_w (lc_mask c) then 2 else 0).
Definition sort_calls (l : list leafcall) := sort_by call_key l.
Definition call_eqb (a b : leafcall) : bool := call_key a =? call_key b.
Definition calls_eqb (a b : list leafcall) : bool := list_eqb call_eqb (sort_calls a) (sort_calls b).

(* ---- lookups in dumps ----------------------------------------------------- *)
Definition d_oofs_by (d : dump) (other : N) := find_by (fun o => of_other o =? other) (d_oofs d).
Definition d_lofs_by (d : dump) (other : N) := find_by (fun l => lf_other l =? other) (d_lofs d).
Definition d_oos_by (d : dump) (ck : N * N) := find_by (oos_is ck) (d_oos d).
Definition d_los_by (d : dump) (lk : N * N) := find_by (fun l => pair_eqb (dlo_client l, dlo_key l) lk) (d_los d).
Definition d_pool_by (d : dump) (h : N) := find_by (fun p => dp_handle p =? h) (d_pool d).
Definition d_conf_by (d : dump) (short : N) := find_by (fun c => cf_short c =? short) (d_confs d).
Definition d_locks (d : dump) (h : N) : list dlock :=
  match d_pool_by d h with Some p => dp_locks p | None => [] end.
Definition d_handle_of_lofs (d : dump) (l : lofs) : option N :=
  match d_oofs_by d (lf_oofs l) with Some o => Some (of_handle o) | None => None end.

(* ---- monitor state -------------------------------------------------------- *)
Inductive ownerref := OwOpen (ck : N * N) | OwLock (lk : N * N).
Definition ownerref_eqb (a b : ownerref) : bool :=
  match a, b with
  | OwOpen x, OwOpen y | OwLock x, OwLock y => pair_eqb x y
  | _, _ => false
  end.
Record mpend := mkMpend { mp_g : N; mp_req : req; mp_isio : bool; mp_other : N; mp_handle : N;
                          mp_mask : mask; mp_owner : N * N; mp_seq : N }.
Record ghostc := mkGhost { gh_h : N; gh_or : N; gh_cr : N; gh_ow : N; gh_cw : N }.
Record lastrec := mkLast { lr_owner : ownerref; lr_req : req; lr_reply : opres; lr_hash : N }.
(* [mn_trig]: the (client, lock-owner, file handle) triples for which the
   shared-lock-owner trigger has happened so far in this history (see trig_of) *)
(* [mn_lease]: the lease bookkeeping the monitor keeps by itself, from the
   requests and replies of the trace only (see lease_step) *)
Record lmon := mkLmon { lm_clock : Z;                 (* latest clock reading any event carried *)
                        lm_heard : list (N * Z);      (* client confirmation (short id) -> when it was last heard of *)
                        lm_fly : list (N * N) }.      (* goroutine parked in the file system -> client it keeps busy *)
Definition lmon_init : lmon := mkLmon 0 [] [].
Record mon := mkMon { mn_dump : dump; mn_ghost : list ghostc; mn_pend : list mpend; mn_last : list lastrec;
                      mn_trig : list (N * N * N); mn_lease : lmon }.
Definition mon_init : mon := mkMon (empty_dump 0) [] [] [] [] lmon_init.

Definition b2n (b : bool) : N := if b then 1 else 0.

(* ghost counters: opens and closes per leaf and access bit *)
Definition ghost_get (g : list ghostc) (h : N) : ghostc :=
  match find_by (fun x => gh_h x =? h) g with Some x => x | None => mkGhost h 0 0 0 0 end.
Definition ghost_apply1 (g : list ghostc) (c : leafcall) : list ghostc :=
  let x := ghost_get g (lc_h c) in
  let r := b2n (m_r (lc_mask c)) in let w := b2n (m_w (lc_mask c)) in
  let x' := if lc_open c then mkGhost (gh_h x) (gh_or x + r) (gh_cr x) (gh_ow x + w) (gh_cw x)
            else mkGhost (gh_h x) (gh_or x) (gh_cr x + r) (gh_ow x) (gh_cw x + w) in
  x' :: del_by (fun y => gh_h y =? lc_h c) g.
Definition ghost_apply (g : list ghostc) (calls : list leafcall) : list ghostc :=
  fold_left ghost_apply1 (sort_calls calls) g.       (* opens sort before closes of the same leaf *)
Definition ghost_le (g : list ghostc) : bool :=
  forallb (fun x => (gh_cr x <=? gh_or x) && (gh_cw x <=? gh_ow x)) g.
Definition net_r (g : list ghostc) (h : N) : N := let x := ghost_get g h in gh_or x - gh_cr x.
Definition net_w (g : list ghostc) (h : N) : N := let x := ghost_get g h in gh_ow x - gh_cw x.

(* ---- C18: state invariants of one dump ------------------------------------ *)
Definition io_on (pend : list mpend) (other : N) (rd : bool) : N :=
  count_by (fun p => mp_isio p && (mp_other p =? other) && (if rd then m_r (mp_mask p) else m_w (mp_mask p))) pend.

(* readers/writers of an open-owner file = open share + lock-owner file
   clones + in-flight I/O clones *)
Definition share_count_ok (d : dump) (pend : list mpend) : bool :=
  forallb (fun o =>
    (of_rd o =? b2n (m_r (of_sa o)) + count_by (fun l => (lf_oofs l =? of_other o) && m_r (lf_sa l)) (d_lofs d) + io_on pend (of_other o) true)
    && (of_wr o =? b2n (m_w (of_sa o)) + count_by (fun l => (lf_oofs l =? of_other o) && m_w (lf_sa l)) (d_lofs d) + io_on pend (of_other o) false))
    (d_oofs d).

(* Open-owner files that left the tables but still carry in-flight I/O. *)
Fixpoint dedup (l : list N) : list N :=
  match l with [] => [] | x :: tl => if existsb (N.eqb x) tl then dedup tl else x :: dedup tl end.
Definition zombies (d : dump) (pend : list mpend) : list N :=
  dedup (map mp_other (filter (fun p => mp_isio p && match d_oofs_by d (mp_other p) with Some _ => false | None => true end) pend)).
Definition zombie_handle (pend : list mpend) (other : N) : N :=
  match find_by (fun p => mp_isio p && (mp_other p =? other)) pend with Some p => mp_handle p | None => 0 end.

Definition expected_net (d : dump) (pend : list mpend) (h : N) (rd : bool) : N :=
  count_by (fun o => (of_handle o =? h) && (0 <? (if rd then of_rd o else of_wr o))) (d_oofs d)
  + count_by (fun z => (zombie_handle pend z =? h) && (0 <? io_on pend z rd)) (zombies d pend).

Definition handles_of (d : dump) (g : list ghostc) (pend : list mpend) : list N :=
  dedup (map gh_h g ++ map of_handle (d_oofs d) ++ map mp_handle (filter mp_isio pend)).

(* the leaf is open for an access bit exactly once per open-owner file object holding it *)
Definition balance_ok (d : dump) (g : list ghostc) (pend : list mpend) : bool :=
  forallb (fun h => (net_r g h =? expected_net d pend h true) && (net_w g h =? expected_net d pend h false))
          (handles_of d g pend).

(* an issued state ID that entitles to an access bit implies the leaf is open for it *)
Definition entitled_ok (d : dump) (g : list ghostc) : bool :=
  forallb (fun o => (negb (m_r (of_sa o)) || (0 <? net_r g (of_handle o)))
                    && (negb (m_w (of_sa o)) || (0 <? net_w g (of_handle o)))) (d_oofs d)
  && forallb (fun l => match d_handle_of_lofs d l with
                       | Some h => (negb (m_r (lf_sa l)) || (0 <? net_r g h)) && (negb (m_w (lf_sa l)) || (0 <? net_w g h))
                       | None => false end) (d_lofs d).

(* pool entry exists for every open-owner file; use count = number of them *)
Definition pool_ok (d : dump) : bool :=
  forallb (fun o => match d_pool_by d (of_handle o) with Some _ => true | None => false end) (d_oofs d)
  && forallb (fun p => (0 <? dp_use p) && (dp_use p =? count_by (fun o => of_handle o =? dp_handle p) (d_oofs d))) (d_pool d).

(* referential integrity of the tables *)
Definition d_confirmed_client (d : dump) (short : N) : bool :=
  match d_conf_by d short with
  | Some c => existsb (fun p => (fst p =? cf_long c) && (snd p =? short)) (d_confirmed d)
  | None => false
  end.
Definition d_is_unused (d : dump) (o : oos) : bool :=
  let n := count_by (fun f => pair_eqb (of_client f, of_owner f) (oo_client o, oo_key o)) (d_oofs d) in
  (n =? 0)
  || ((n =? 1) && match oo_last o with Some c => match ca_closed c with Some _ => true | None => false end | None => false end)
  || negb (oo_confirmed o).
Definition integrity_ok (d : dump) : string :=
  if negb (forallb (fun p => match d_conf_by d (snd p) with Some c => cf_long c =? fst p | None => false end) (d_confirmed d))
  then "C18:confirmed-without-confirmation"
  else if negb (forallb (fun o => d_confirmed_client d (oo_client o)) (d_oos d)) then "C18:open-owner-without-client"
  else if negb (forallb (fun f => match d_oos_by d (of_client f, of_owner f) with Some _ => true | None => false end) (d_oofs d))
  then "C18:open-owner-file-without-owner"
  else if negb (forallb (fun l => d_confirmed_client d (dlo_client l)
                                  && existsb (fun f => pair_eqb (lf_client f, lf_lokey f) (dlo_client l, dlo_key l)) (d_lofs d)) (d_los d))
  then "C18:lock-owner-without-files"
  else if negb (forallb (fun l => match d_los_by d (lf_client l, lf_lokey l), d_oofs_by d (lf_oofs l) with
                                  | Some _, Some f => negb (mask_empty (of_sa f)) && (of_client f =? lf_client l)
                                  | _, _ => false end) (d_lofs d))
  then "C18:lock-owner-file-dangling"
  else if negb (forallb (fun c => Bool.eqb (cf_hold c =? 0) (existsb (N.eqb (cf_short c)) (d_idle d))) (d_confs d)
                && (N.of_nat (List.length (d_idle d)) =? count_by (fun c => cf_hold c =? 0) (d_confs d)))
  then "C18:idle-list"
  else if negb (forallb (fun o => Bool.eqb (negb (oo_intx o) && d_is_unused d o) (existsb (pair_eqb (oo_client o, oo_key o)) (d_unused d))) (d_oos d)
                && (N.of_nat (List.length (d_unused d)) =? count_by (fun o => negb (oo_intx o) && d_is_unused d o) (d_oos d)))
  then "C18:unused-list"
  else if negb (forallb (fun o => match oo_last o with
                                  | Some c => match ca_closed c with
                                              | Some other => match d_oofs_by d other with Some f => mask_empty (of_sa f) | None => false end
                                              | None => true end
                                  | None => true end) (d_oos d))
  then "C19:closed-stateid-dropped"
  else "".

(* nothing whose lease has lapsed is retained once enter() has run *)
Definition not_expired (d : dump) : bool :=
  forallb (fun c => negb (cf_hold c =? 0) || (d_now d - lease <=? cf_lastseen c)%Z) (d_confs d)
  && forallb (fun o => negb (existsb (pair_eqb (oo_client o, oo_key o)) (d_unused d)) || (d_now d - lease <=? oo_lastused o)%Z) (d_oos d).

(* ---- C20: lock tables ------------------------------------------------------ *)
Definition ls_of (l : dlock) : LS.lock :=
  LS.mkLock (dl_start l) (dl_end l) (key2 (dl_client l) (dl_key l)) (if dl_excl l then LS.Exclusive else LS.Shared).
(* The trigger of the known finding "shared lock-owner": one lock-owner of one
   client holds lock state on one file through two (or more) open-owner files.
   The lock-owner files then share one owner in the file's lock table while
   lockCount is kept per lock-owner file.  [trig_of d]: the (client,
   lock-owner, file handle) triples for which this is the case in dump [d]. *)
Definition trig := (N * N * N)%type.
Definition trig_eqb (a b : trig) : bool :=
  (fst (fst a) =? fst (fst b)) && (snd (fst a) =? snd (fst b)) && (snd a =? snd b).
Definition trig_of (d : dump) : list trig :=
  flat_map (fun a =>
    match d_handle_of_lofs d a with
    | Some h =>
      if existsb (fun b => negb (lf_other a =? lf_other b)
                           && pair_eqb (lf_client a, lf_lokey a) (lf_client b, lf_lokey b)
                           && opt_eqb N.eqb (d_handle_of_lofs d b) (Some h)) (d_lofs d)
      then [(lf_client a, lf_lokey a, h)] else []
    | None => []
    end) (d_lofs d).
(* has the trigger happened (so far in this history) for this lock-owner on this file? *)
Definition triggered (T : list trig) (cl key h : N) : bool := existsb (trig_eqb (cl, key, h)) T.
Definition trig_on_handle (T : list trig) (h : N) : bool := existsb (fun t => snd t =? h) T.
Definition trig_add (T : list trig) (new : list trig) : list trig :=
  fold_left (fun acc t => if existsb (trig_eqb t) acc then acc else t :: acc) new T.
Definition shared_kind : string := "C20:shared-lock-owner"%string.
(* A C20 symptom on a (lock-owner, file) for which the trigger has happened is
   reported under the one kind of the known finding; without the trigger it
   keeps its specific kind, so that a different defect still alarms. *)
Definition scoped (hit : bool) (k : string) : string :=
  if String.eqb k "" then ""%string
  else if hit && String.prefix "C20:" k then shared_kind else k.
Fixpoint first_of {A} (f : A -> string) (l : list A) : string :=
  match l with
  | [] => ""%string
  | x :: tl => let e := f x in if String.eqb e "" then first_of f tl else e
  end.

Definition locks_ok (T : list trig) (d : dump) : string :=
  let owner_object : string :=
    first_of (fun p => first_of (fun l =>
        scoped (triggered T (dl_client l) (dl_key l) (dp_handle p))
               (if dl_cur l && match d_los_by d (dl_client l, dl_key l) with Some _ => true | None => false end
                then "" else "C20:lock-owner-object")) (dp_locks p)) (d_pool d) in
  let lockcount : string :=
    first_of (fun l =>
        match d_handle_of_lofs d l with
        | Some h =>
          scoped (triggered T (lf_client l) (lf_lokey l) h)
                 (if (lf_count l =? Z.of_N (count_by (fun k => pair_eqb (dl_client k, dl_key k) (lf_client l, lf_lokey l)) (d_locks d h)))%Z
                  then "" else "C20:lockcount-mismatch")
        | None => "C20:lockcount-mismatch"%string
        end) (d_lofs d) in
  let orphan : string :=
    first_of (fun p => first_of (fun k =>
        scoped (triggered T (dl_client k) (dl_key k) (dp_handle p))
               (if existsb (fun l => pair_eqb (lf_client l, lf_lokey l) (dl_client k, dl_key k)
                                     && match d_handle_of_lofs d l with Some h => h =? dp_handle p | None => false end) (d_lofs d)
                then "" else "C20:lock-without-lock-owner-file")) (dp_locks p)) (d_pool d) in
  let shape : string :=
    first_of (fun p => scoped (trig_on_handle T (dp_handle p))
        (if negb (LSS.wf (map ls_of (dp_locks p))) then "C20:table-not-wf"
         else if negb (LSS.compatible (map ls_of (dp_locks p))) then "C20:exclusion" else "")) (d_pool d) in
  if negb (String.eqb owner_object "") then owner_object
  else if negb (String.eqb lockcount "") then lockcount
  else if negb (String.eqb orphan "") then orphan
  else shape.

Definition state_ok (T : list trig) (d : dump) (g : list ghostc) (pend : list mpend) : string :=
  if negb (ghost_le g) then "C18:close-without-open"
  else if negb (share_count_ok d pend) then "C18:share-count"
  else if negb (entitled_ok d g) then "C18:closed-while-entitled"
  (* an OPEN parked in the file system still carries the closes it scheduled
     before dropping the lock; the balance is exact whenever none is parked *)
  else if forallb mp_isio pend && negb (balance_ok d g pend) then "C18:leaf-open-imbalance"
  else if negb (pool_ok d) then "C18:pool-usecount"
  else let i := integrity_ok d in
       if negb (String.eqb i "") then i
       else if negb (not_expired d) then "C18:expired-state-retained"
       else locks_ok T d.

(* ---- step predicates -------------------------------------------------------- *)
Definition quiet (D : dump) (t : Z) : bool := (t <=? d_now D)%Z.   (* enter(t) cannot expire anything *)
Definition reg_other (sid : stateid) : option N :=
  match internalize_regular sid with IsReg _ o => Some o | _ => None end.
Definition fh_handle (fh : curfh) : option N := match fh with FhFile h _ => Some h | _ => None end.

Record oinfo := mkOinfo { oi_ref : ownerref; oi_seq : N; oi_kind : rkind; oi_sid : option stateid;
                          oi_last : option cached; oi_lastseq : N; oi_confirmed : bool; oi_intx : bool }.

(* The owner whose sequence id governs the request, as the pre-state shows it. *)
Definition owner_info (D : dump) (r : req) : option oinfo :=
  let of_oos ck seq k sid :=
    match d_oos_by D ck with
    | Some o => Some (mkOinfo (OwOpen ck) seq k sid (oo_last o) (oo_lastseq o) (oo_confirmed o) (oo_intx o))
    | None => None end in
  let via_oofs sid seq k withsid :=
    match reg_other sid with
    | Some other => match d_oofs_by D other with
                    | Some f => of_oos (of_client f, of_owner f) seq k (if withsid : bool then Some sid else None)
                    | None => None end
    | None => None end in
  let via_lofs sid seq k :=
    match reg_other sid with
    | Some other =>
      match d_lofs_by D other with
      | Some l => match d_los_by D (lf_client l, lf_lokey l) with
                  | Some o => Some (mkOinfo (OwLock (lf_client l, lf_lokey l)) seq k (Some sid) (dlo_last o) (dlo_lastseq o) true false)
                  | None => None end
      | None => None end
    | None => None end in
  match r with
  | ROpen a =>
    if d_confirmed_client D (oa_client a) then
      match d_oos_by D (oa_client a, oa_owner a) with
      | Some _ => of_oos (oa_client a, oa_owner a) (oa_seq a) KOpen None
      | None => Some (mkOinfo (OwOpen (oa_client a, oa_owner a)) (oa_seq a) KOpen None None 0 false false)
      end
    else None
  | ROpenConfirm sid seq => via_oofs sid seq KOpenConfirm true
  | ROpenDowngrade sid seq _ _ => via_oofs sid seq KOpenDowngrade true
  | RClose sid seq => via_oofs sid seq KClose true
  | RLockNew _ _ _ osid oseq _ _ _ => via_oofs osid oseq KLock false
  | RLockOld _ _ _ lsid lseq => via_lofs lsid lseq KLock
  | RLockU _ seq lsid _ _ => via_lofs lsid seq KLocku
  | _ => None
  end.
Definition replay_candidate (oi : oinfo) : option cached :=
  match oi_last oi with Some c => if oi_seq oi =? oi_lastseq oi then Some c else None | None => None end.
Definition misordered (oi : oinfo) : bool :=
  let nextok := oi_seq oi =? next_seq (oi_lastseq oi) in
  if oi_confirmed oi then negb nextok
  else match oi_kind oi with KOpen => false | KOpenConfirm => negb nextok | _ => true end.

Definition post_owner (D' : dump) (o : ownerref) : option (N * option cached) :=
  match o with
  | OwOpen ck => match d_oos_by D' ck with Some x => Some (oo_lastseq x, oo_last x) | None => None end
  | OwLock lk => match d_los_by D' lk with Some x => Some (dlo_lastseq x, dlo_last x) | None => None end
  end.
(* seqid_advances_iff_should_complete *)
Definition check_exec (D' : dump) (o : ownerref) (k : rkind) (seq lastseq : N) (res : opres) : string :=
  match post_owner D' o with
  | None => "C19:owner-vanished"
  | Some (ls, last) =>
    if should_complete (status_of res) then
      if (ls =? seq) && match last with Some c => rkind_eqb (ca_kind c) k && opres_eqb (ca_res c) res | None => false end
      then "" else "C19:seqid-not-advanced"
    else if ls =? lastseq then "" else "C19:seqid-advanced-on-error"
  end.

Definition kind_name (r : req) : string :=
  match r with
  | ROpen _ => "open" | ROpenConfirm _ _ => "open-confirm" | ROpenDowngrade _ _ _ _ => "open-downgrade"
  | RClose _ _ => "close" | RLockNew _ _ _ _ _ _ _ _ => "lock-new" | RLockOld _ _ _ _ _ => "lock"
  | RLockU _ _ _ _ _ => "locku" | _ => "other"
  end.
Definition no_calls (calls : list leafcall) : bool := match calls with [] => true | _ => false end.

(* C19 on one request: replay_same_reply40, false_retry_detected,
   misordered_no_effect, seqid_advances_iff_should_complete, serialisation
   of requests on an owner whose transaction is in flight *)
Definition p_owner_req (m : mon) (D' : dump) (t : Z) (r : req) (rp : reply) (hash : N) (calls : list leafcall) : string :=
  let D := mn_dump m in
  match rp with
  | RpPutfhFail _ => ""
  | _ =>
  match owner_info D r with
  | None => ""
  | Some oi =>
    if negb (quiet D t) then ""
    else if oi_intx oi then
      (if negb (reply_eqb rp RpBlocked) then "C19:inflight-not-serialized"
       else if negb (dump_eqb D D') then "C19:blocked-side-effect" else "")
    else if reply_eqb rp RpBlocked then "C19:blocked-without-transaction"
    else
      match replay_candidate oi with
      | Some c =>
        let differs : string :=
          (if reply_eqb rp (RpOp (ca_res c)) then String.append "C19:false-retry-" (kind_name r)
           else if negb (reply_eqb rp (RpOp (ResStatus ERR_BAD_SEQID))) then "C19:false-retry-executed"
           else if negb (dump_eqb D D' && no_calls calls) then "C19:bad-seqid-side-effect" else "")%string in
        match find_by (fun g => ownerref_eqb (lr_owner g) (oi_ref oi)) (mn_last m) with
        | Some g =>
          if req_eqb (lr_req g) r then
            if negb (reply_eqb rp (RpOp (lr_reply g)) && (hash =? lr_hash g)) then "C19:replay-different-reply"
            else if negb (dump_eqb D D') then "C19:replay-side-effect"
            else if negb (no_calls calls) then "C19:replay-leaf-call" else ""
          else differs
        | None => differs
        end
      | None =>
        if misordered oi then
          if negb (reply_eqb rp (RpOp (ResStatus ERR_BAD_SEQID))) then "C19:misordered-accepted"
          else if negb (dump_eqb D D' && no_calls calls) then "C19:bad-seqid-side-effect" else ""
        else
          (* LOCK with a new lock-owner file of an existing lock-owner: the nested
             lock-owner transaction treats a lock seqid equal to the lock-owner's
             cached one as a replay of a different request *)
          let nested :=
            match r with
            | RLockNew _ _ _ _ _ lseq lclient lowner =>
              match d_los_by D (lclient, lowner) with
              | Some x => match dlo_last x with
                          | Some c => (dlo_lastseq x =? lseq) && reply_eqb rp (RpOp (ca_res c))
                                      && negb (reply_eqb rp (RpOp (ResStatus ERR_BAD_SEQID)))
                          | None => false end
              | None => false end
            | _ => false
            end in
          if nested then "C19:false-retry-lock-new-nested"
          else
          match rp with
          | RpOp res => check_exec D' (oi_ref oi) (oi_kind oi) (oi_seq oi) (oi_lastseq oi) res
          | _ => ""
          end
      end
  end
  end.

(* C18 stateid_scope: a state ID is honoured only for the file handle, client
   and sequence it was issued for *)
Definition open_sid_ok (D : dump) (fh : curfh) (sid : stateid) (need_confirmed : bool) (acc : mask) : bool :=
  match sid_other sid with
  | SoReg o =>
    match d_oofs_by D o with
    | Some f => opt_eqb N.eqb (fh_handle fh) (Some (of_handle f)) && (sid_seq sid =? of_seq f)
                && negb (mask_empty (of_sa f)) && mask_subset acc (of_sa f)
                && (negb need_confirmed || match d_oos_by D (of_client f, of_owner f) with Some x => oo_confirmed x | None => false end)
    | None => false end
  | _ => false end.
Definition lock_sid_ok (D : dump) (fh : curfh) (sid : stateid) (acc : mask) : bool :=
  match sid_other sid with
  | SoReg o =>
    match d_lofs_by D o with
    | Some l => opt_eqb N.eqb (fh_handle fh) (d_handle_of_lofs D l) && (sid_seq sid =? lf_seq l) && mask_subset acc (lf_sa l)
    | None => false end
  | _ => false end.
Definition is_stateid_reply (rp : reply) : bool := match rp with RpOp (ResStateid _ _) => true | _ => false end.
Definition p_scope (D : dump) (t : Z) (fh : curfh) (r : req) (rp : reply) : string :=
  if negb (quiet D t) then "" else
  let fresh := match owner_info D r with Some oi => match replay_candidate oi with Some _ => false | None => true end | None => true end in
  let bad : string := "C18:stateid-out-of-scope"%string in
  match r with
  | ROpenConfirm sid _ => if is_stateid_reply rp && fresh && negb (open_sid_ok D fh sid false mask_none) then bad else ""
  | ROpenDowngrade sid _ _ _ | RClose sid _ =>
      if is_stateid_reply rp && fresh && negb (open_sid_ok D fh sid true mask_none) then bad else ""
  | RLockNew _ _ _ osid _ _ lclient _ =>
      if is_stateid_reply rp && fresh
         && negb (open_sid_ok D fh osid true mask_none
                  && match reg_other osid with Some o => match d_oofs_by D o with Some f => of_client f =? lclient | None => false end | None => false end)
      then bad else ""
  | RLockOld _ _ _ lsid _ | RLockU _ _ lsid _ _ =>
      if is_stateid_reply rp && fresh && negb (lock_sid_ok D fh lsid mask_none) then bad else ""
  | RIo k sid _ _ =>
      if reply_eqb rp RpParkedIo && negb (open_sid_ok D fh sid true (io_access k) || lock_sid_ok D fh sid (io_access k)) then bad else ""
  | _ => ""
  end.

(* C20 through NFS: lockt_iff_lock, own locks never conflict, close and
   RELEASE_LOCKOWNER release exactly, lockCount gates *)
Definition mk_query (ltype off len : N) (owner : N * N) : option LS.lock :=
  match LS.offset_length_to_start_end off len, lock_type ltype with
  | Some (st, en), Some ty => Some (LS.mkLock st en (key2 (fst owner) (snd owner)) ty)
  | _, _ => None
  end.
Definition conflicts_with (q : LS.lock) (tbl : list dlock) : bool := existsb (fun k => LSS.conflicts (ls_of k) q) tbl.
Definition denied_check (q : LS.lock) (owner : N * N) (tbl : list dlock) (o l ty c k : N) : string :=
  if pair_eqb (c, k) owner then "C20:own-lock-denied"
  else if existsb (fun x => (dl_start x =? o) && pair_eqb (dl_client x, dl_key x) (c, k)
                            && Bool.eqb (dl_excl x) (ty =? 2)
                            && (l =? (if dl_end x =? LS.max_u64 then LS.max_u64 else dl_end x - dl_start x))
                            && LSS.conflicts (ls_of x) q) tbl then ""
  else "C20:denied-without-conflict".
Definition tables_eqb (a b : list dlock) : bool := list_eqb dlock_eqb a b.

(* offset = length = 2^64-1 denotes the empty range [2^64-1, 2^64-1) *)
Definition empty_range_granted (r : req) (rp : reply) : bool :=
  match r, rp with
  | RLockNew _ off len _ _ _ _ _, RpOp (ResStateid _ _) | RLockOld _ off len _ _, RpOp (ResStateid _ _) =>
      (off =? LS.max_u64) && (len =? LS.max_u64)
  | _, _ => false
  end.

Definition p_lock_raw (D D' : dump) (t : Z) (fh : curfh) (r : req) (rp : reply) : string :=
  if negb (quiet D t) then "" else
  let fresh := match owner_info D r with Some oi => match replay_candidate oi with Some _ => false | None => true end | None => true end in
  match r, fh_handle fh with
  | RLockT ltype off len cl ow, Some h =>
    match mk_query ltype off len (cl, ow) with
    | Some q =>
      match rp with
      | RpOp (ResStatus st) => if (st =? NFS4_OK) && conflicts_with q (d_locks D h) then "C20:lockt-missed-conflict" else ""
      | RpOp (ResDenied o l ty c k) => denied_check q (cl, ow) (d_locks D h) o l ty c k
      | _ => ""
      end
    | None => ""
    end
  | RLockNew ltype off len _ _ _ lclient lowner, Some h =>
    match mk_query ltype off len (lclient, lowner) with
    | Some q =>
      match rp with
      | RpOp (ResStateid _ _) =>
        if negb fresh then ""
        else if conflicts_with q (d_locks D h) then "C20:granted-despite-conflict"
        else if negb (LSS.bytes_ok (map ls_of (d_locks D h)) (map ls_of (d_locks D' h)) q) then "C20:lock-bytes" else ""
      | RpOp (ResDenied o l ty c k) => if fresh then denied_check q (lclient, lowner) (d_locks D h) o l ty c k else ""
      | _ => ""
      end
    | None => ""
    end
  | RLockOld ltype off len lsid _, Some h =>
    match reg_other lsid with
    | Some other =>
      match d_lofs_by D other with
      | Some lf =>
        match mk_query ltype off len (lf_client lf, lf_lokey lf) with
        | Some q =>
          match rp with
          | RpOp (ResStateid _ _) =>
            if negb fresh then ""
            else if conflicts_with q (d_locks D h) then "C20:granted-despite-conflict"
            else if negb (LSS.bytes_ok (map ls_of (d_locks D h)) (map ls_of (d_locks D' h)) q) then "C20:lock-bytes" else ""
          | RpOp (ResDenied o l ty c k) => if fresh then denied_check q (lf_client lf, lf_lokey lf) (d_locks D h) o l ty c k else ""
          | _ => ""
          end
        | None => ""
        end
      | None => ""
      end
    | None => ""
    end
  | RLockU _ _ lsid off len, Some h =>
    match reg_other lsid with
    | Some other =>
      match d_lofs_by D other, LS.offset_length_to_start_end off len with
      | Some lf, Some (st, en) =>
        let q := LS.mkLock st en (key2 (lf_client lf) (lf_lokey lf)) LS.Unlocked in
        if is_stateid_reply rp && fresh && negb (LSS.bytes_ok (map ls_of (d_locks D h)) (map ls_of (d_locks D' h)) q)
        then "C20:unlock-bytes" else ""
      | _, _ => ""
      end
    | None => ""
    end
  | RClose sid _, Some h =>
    match reg_other sid with
    | Some other =>
      if is_stateid_reply rp && fresh then
        let owners := map (fun l => (lf_client l, lf_lokey l)) (filter (fun l => lf_oofs l =? other) (d_lofs D)) in
        let expect := filter (fun k => negb (existsb (pair_eqb (dl_client k, dl_key k)) owners)) (d_locks D h) in
        if tables_eqb (d_locks D' h) expect then "" else "C20:close-lock-release"
      else ""
    | None => ""
    end
  | RReleaseLockOwner cl ow, _ =>
    if d_confirmed_client D cl then
      let files := filter (fun l => pair_eqb (lf_client l, lf_lokey l) (cl, ow)) (d_lofs D) in
      if existsb (fun l => (0 <? lf_count l)%Z) files then
        if reply_eqb rp (RpOp (ResStatus ERR_LOCKS_HELD))
           && list_eqb lofs_eqb (d_lofs D) (d_lofs D') && list_eqb dlos_eqb (d_los D) (d_los D')
           && list_eqb dpfile_eqb (d_pool D) (d_pool D')
        then "" else "C20:release-lockowner-gate"
      else
        if reply_eqb rp (RpOp ok_res)
           && negb (existsb (fun l => pair_eqb (lf_client l, lf_lokey l) (cl, ow)) (d_lofs D'))
           && match d_los_by D' (cl, ow) with Some _ => false | None => true end
        then "" else "C20:release-lockowner-incomplete"
    else ""
  | _, _ => ""
  end.

(* The (lock-owner, file) an operation acts on: has the shared-lock-owner
   trigger happened for it? *)
Definition op_triggered (T : list trig) (D : dump) (fh : curfh) (r : req) : bool :=
  match r with
  | RLockT _ _ _ cl ow =>
      match fh_handle fh with Some h => triggered T cl ow h | None => false end
  | RLockNew _ _ _ _ _ _ lclient lowner =>
      match fh_handle fh with Some h => triggered T lclient lowner h | None => false end
  | RLockOld _ _ _ lsid _ | RLockU _ _ lsid _ _ =>
      match reg_other lsid with
      | Some other => match d_lofs_by D other with
                      | Some l => match d_handle_of_lofs D l with
                                  | Some h => triggered T (lf_client l) (lf_lokey l) h | None => false end
                      | None => false end
      | None => false end
  | RClose sid _ =>
      match reg_other sid with
      | Some other => match d_oofs_by D other with
                      | Some o => existsb (fun l => (lf_oofs l =? other) && triggered T (lf_client l) (lf_lokey l) (of_handle o)) (d_lofs D)
                      | None => false end
      | None => false end
  | RReleaseLockOwner cl ow => existsb (fun t => (fst (fst t) =? cl) && (snd (fst t) =? ow)) T
  | _ => false
  end.

Definition p_lock (T : list trig) (D D' : dump) (t : Z) (fh : curfh) (r : req) (rp : reply) : string :=
  if empty_range_granted r rp then "C20:empty-range-accepted"
  else scoped (op_triggered T D fh r) (p_lock_raw D D' t fh r rp).

(* A panic belongs to the known finding if the request acts on a
   (lock-owner, file) for which the trigger has happened, if the request itself
   makes a lock-owner lock through a second open-owner file, if enter() may
   expire an idle client for which it has happened, or if
   SETCLIENTID_CONFIRM discards the state of such a client. *)
Definition idle_trig_client (T : list trig) (D : dump) : bool :=
  existsb (fun t => match d_conf_by D (fst (fst t)) with Some c => cf_hold c =? 0 | None => false end) T.
Definition panic_shared (T : list trig) (D : dump) (e : event) (sharing_now : bool) : bool :=
  match e with
  | EReq _ t fh r =>
    sharing_now || op_triggered T D fh r
    || (negb (quiet D t) && idle_trig_client T D)
    || match r with
       | RSetClientIdConfirm short _ =>
         match d_conf_by D short with
         | Some c => existsb (fun t => match d_conf_by D (fst (fst t)) with
                                       | Some c' => (cf_long c' =? cf_long c) && negb (cf_short c' =? short)
                                       | None => false end) T
         | None => false end
       | _ => false
       end
  | EOpenRet _ t _ | EIoRet _ t _ => negb (quiet D t) && idle_trig_client T D
  end.

(* C18 open_stays_resolvable on one request *)
Definition p_resolve (D D' : dump) (fh : curfh) (rp : reply) (calls : list leafcall) : string :=
  match rp with
  | RpPutfhFail _ =>
    match fh with
    | FhFile h linked =>
      if linked || existsb (fun o => of_handle o =? h) (d_oofs D) then "C18:open-not-resolvable"
      else if negb (dump_eqb D D' && no_calls calls) then "C18:failed-putfh-side-effect" else ""
    | _ => "C18:open-not-resolvable"
    end
  | _ => ""
  end.

(* ---- the monitor -------------------------------------------------------------- *)
Definition first_err (l : list string) : string :=
  fold_right (fun x acc => if String.eqb x ""%string then acc else x) ""%string l.

Definition set_last (l : list lastrec) (o : ownerref) (r : req) (res : opres) (hash : N) : list lastrec :=
  mkLast o r res hash :: del_by (fun g => ownerref_eqb (lr_owner g) o) l.

(* remember the request that produced the reply an owner now caches *)
Definition update_last (m : mon) (D' : dump) (o : ownerref) (seq : N) (r : req) (res : opres) (hash : N)
    (was_candidate : bool) (l : list lastrec) : list lastrec :=
  match post_owner D' o with
  | Some (ls, Some c) => if (ls =? seq) && negb was_candidate && opres_eqb (ca_res c) res then set_last l o r res hash else l
  | _ => l
  end.

Definition io_target (D : dump) (sid : stateid) : N :=
  match sid_other sid with
  | SoReg o => match d_oofs_by D o with
               | Some _ => o
               | None => match d_lofs_by D o with Some l => lf_oofs l | None => 0 end
               end
  | _ => 0
  end.

(* ---- C18: a client is expired only once its lease has really lapsed --------
   The monitor keeps, per client confirmation, the time the client was last
   heard of.  It is updated from the trace only - never from the lastSeen
   field of the dump: by every request of the client that renews the lease
   (RFC 7530 9.5: a valid client ID or a valid regular state ID / owner
   sequence) and that the server accepted, with the clock reading the request
   STARTED with (a lower bound of what the server may record when it lets go
   of the client); for a call parked in the file system also with the clock
   reading of its return.  State IDs are resolved to clients through the
   pre-state dump.  A request that failed before it reached the client (bad
   state ID, stale client ID, bad seqid) and a retransmission answered from an
   owner's reply cache renew nothing (the code does not renew for them; not
   counting them keeps the rule conservative). *)
Definition ev_time (e : event) : Z := match e with EReq _ t _ _ | EOpenRet _ t _ | EIoRet _ t _ => t end.
Definition heard_of (L : lmon) (short : N) : option Z :=
  match find_by (fun p => fst p =? short) (lm_heard L) with Some p => Some (snd p) | None => None end.
Definition heard_set (h : list (N * Z)) (short : N) (t : Z) : list (N * Z) :=
  match find_by (fun p => fst p =? short) h with
  | Some p => (short, Z.max (snd p) t) :: del_by (fun p => fst p =? short) h
  | None => (short, t) :: h
  end.
Definition sid_client (D : dump) (sid : stateid) : option N :=
  match d_oofs_by D (io_target D sid) with Some o => Some (of_client o) | None => None end.
Definition ownerref_client (o : ownerref) : N := match o with OwOpen ck => fst ck | OwLock lk => fst lk end.
Definition is_ok_reply (rp : reply) : bool := match rp with RpOp (ResStatus st) => st =? NFS4_OK | _ => false end.
(* the client whose lease the accepted request [r] renews *)
Definition renewed_client (D : dump) (r : req) (rp : reply) : option N :=
  match r with
  | RSetClientId _ _ =>
      match rp with
      | RpOp (ResSetClientId short _) => match d_conf_by D short with Some _ => None | None => Some short end   (* a new confirmation record *)
      | _ => None end
  | RSetClientIdConfirm short _ =>
      if is_ok_reply rp && negb (d_confirmed_client D short) then Some short else None
  | RRenew short => if is_ok_reply rp then Some short else None
  | ROpen a => match rp with RpParkedOpen => Some (oa_client a) | _ => None end
  | ROpenConfirm _ _ | ROpenDowngrade _ _ _ _ | RClose _ _ | RLockNew _ _ _ _ _ _ _ _ | RLockOld _ _ _ _ _ | RLockU _ _ _ _ _ =>
      match owner_info D r with
      | Some oi => if is_stateid_reply rp && match replay_candidate oi with Some _ => false | None => true end
                   then Some (ownerref_client (oi_ref oi)) else None
      | None => None end
  | RLockT _ _ _ client _ | RReleaseLockOwner client _ => if is_ok_reply rp then Some client else None
  | RIo _ sid _ _ => match rp with RpParkedIo => sid_client D sid | _ => None end
  | RResolve => None
  end.
(* SETCLIENTID_CONFIRM of another confirmation of the same client (long id)
   discards the previously confirmed one and its state: re-registration *)
Definition rereg_of (D : dump) (e : event) (rp : reply) : option (N * N) :=
  match e with
  | EReq _ _ _ (RSetClientIdConfirm short _) =>
      if is_ok_reply rp then match d_conf_by D short with Some c => Some (cf_long c, short) | None => None end else None
  | _ => None
  end.
(* every confirmation that leaves the tables in this step: not while a call of
   the client is parked in the file system; and unless the client replaced it
   by registering again, only when nothing was heard of it for a lease period *)
Definition lease_check (L : lmon) (D D' : dump) (e : event) (rp : reply) : string :=
  let clock' := Z.max (lm_clock L) (ev_time e) in
  first_of (fun c =>
    match d_conf_by D' (cf_short c) with
    | Some _ => ""%string
    | None =>
      if existsb (fun p => snd p =? cf_short c) (lm_fly L) then "C18:client-expired-during-io"%string
      else if match rereg_of D e rp with
              | Some (long, short) => (cf_long c =? long) && negb (cf_short c =? short)
              | None => false end then ""%string
      else match heard_of L (cf_short c) with
           | Some T => if (T + lease <? clock')%Z then ""%string else "C18:client-expired-within-lease"%string
           | None => ""%string
           end
    end) (d_confs D).
Definition lease_step (L : lmon) (D : dump) (ob : obs) : lmon * string :=
  let e := ob_ev ob in
  let rp := ob_reply ob in
  let err := lease_check L D (ob_dump ob) e rp in
  let clock' := Z.max (lm_clock L) (ev_time e) in
  let L' :=
    match e with
    | EReq g t _ r =>
      match renewed_client D r rp with
      | Some c => mkLmon clock' (heard_set (lm_heard L) c t)
                         (match rp with RpParkedOpen | RpParkedIo => lm_fly L ++ [(g, c)] | _ => lm_fly L end)
      | None => mkLmon clock' (lm_heard L) (lm_fly L)
      end
    | EOpenRet g t _ | EIoRet g t _ =>
      match find_by (fun p => fst p =? g) (lm_fly L) with
      | Some p => mkLmon clock' (match rp with RpOp _ => heard_set (lm_heard L) (snd p) t | _ => lm_heard L end)
                         (del_by (fun p => fst p =? g) (lm_fly L))
      | None => mkLmon clock' (lm_heard L) (lm_fly L)
      end
    end in
  (L', err).
(* the lease rule alone, over a trace *)
Fixpoint lease_run (L : lmon) (D : dump) (tr : list obs) : string :=
  match tr with
  | [] => ""%string
  | ob :: tl => let '(L', e) := lease_step L D ob in
                if String.eqb e ""%string then lease_run L' (ob_dump ob) tl else e
  end.
Definition lease_trace_ok (tr : list obs) : bool := String.eqb (lease_run lmon_init (empty_dump 0) tr) ""%string.

Definition mon_step (m : mon) (ob : obs) : mon * string :=
  let D := mn_dump m in
  let D' := ob_dump ob in
  let rp := ob_reply ob in
  let calls := ob_calls ob in
  (* the request itself makes a lock-owner share a file through a second open-owner file *)
  let now_trig : list trig :=
    match ob_ev ob with
    | EReq _ _ fh (RLockNew _ _ _ _ _ _ lclient lowner) =>
      match fh_handle fh with
      | Some h => if existsb (fun l => pair_eqb (lf_client l, lf_lokey l) (lclient, lowner)
                                       && opt_eqb N.eqb (d_handle_of_lofs D l) (Some h)) (d_lofs D)
                  then [(lclient, lowner, h)] else []
      | None => []
      end
    | _ => []
    end in
  let T := trig_add (mn_trig m) (now_trig ++ trig_of D')%list in
  let hard : string := match rp with
                       | RpPanic => if panic_shared T D (ob_ev ob) (match now_trig with [] => false | _ => true end)
                                    then shared_kind else "C18:panic"
                       | RpHang => "C19:hang" | _ => "" end%string in
  let '(err, pend, last) :=
    match ob_ev ob with
    | EReq g t fh r =>
      let e := first_err [p_resolve D D' fh rp calls; p_owner_req m D' t r rp (ob_hash ob) calls;
                          p_scope D t fh r rp; p_lock T D D' t fh r rp] in
      let pend :=
        match rp, r with
        | RpParkedOpen, ROpen a =>
            mn_pend m ++ [mkMpend g r false 0 0 mask_none (oa_client a, oa_owner a) (oa_seq a)]
        | RpParkedIo, RIo k sid _ _ =>
            mn_pend m ++ [mkMpend g r true (io_target D sid) (match fh_handle fh with Some h => h | None => 0 end) (io_access k) (0, 0) 0]
        | _, _ => mn_pend m
        end in
      let last :=
        match rp, owner_info D r with
        | RpOp res, Some oi =>
          let l := update_last m D' (oi_ref oi) (oi_seq oi) r res (ob_hash ob)
                               (match replay_candidate oi with Some _ => true | None => false end) (mn_last m) in
          match r with
          | RLockNew _ _ _ _ _ lseq lclient lowner =>
            let lk := (lclient, lowner) in
            let was := match d_los_by D lk with
                       | Some x => (dlo_lastseq x =? lseq) && match dlo_last x with Some _ => true | None => false end
                       | None => false end in
            update_last m D' (OwLock lk) lseq r res (ob_hash ob) was l
          | _ => l
          end
        | _, _ => mn_last m
        end in
      (e, pend, last)
    | EOpenRet g t _ =>
      match find_by (fun p => mp_g p =? g) (mn_pend m) with
      | Some p =>
        let o := OwOpen (mp_owner p) in
        let lastseq := match d_oos_by D (mp_owner p) with Some x => oo_lastseq x | None => 0 end in
        let pend := del_by (fun p => mp_g p =? g) (mn_pend m) in
        match rp with
        | RpOp res => (check_exec D' o KOpen (mp_seq p) lastseq res, pend,
                       update_last m D' o (mp_seq p) (mp_req p) res (ob_hash ob) false (mn_last m))
        | _ => (""%string, pend, mn_last m)
        end
      | None => ("C19:unexpected-return"%string, mn_pend m, mn_last m)
      end
    | EIoRet g t _ =>
      match find_by (fun p => mp_g p =? g) (mn_pend m) with
      | Some p => (""%string, del_by (fun p => mp_g p =? g) (mn_pend m), mn_last m)
      | None => ("C19:unexpected-return"%string, mn_pend m, mn_last m)
      end
    end in
  let ghost := ghost_apply (mn_ghost m) calls in
  let '(L', lerr) := lease_step (mn_lease m) D ob in
  (mkMon D' ghost pend last T L', first_err [hard; err; lerr; state_ok T D' ghost pend]).

Fixpoint mon_run (m : mon) (tr : list obs) : string :=
  match tr with
  | [] => ""
  | ob :: tl => let '(m', e) := mon_step m ob in
                if String.eqb e ""%string then mon_run m' tl else e
  end.
Definition trace_ok (tr : list obs) : bool := String.eqb (mon_run mon_init tr) ""%string.

(* the trace the model produces for a list of events *)
Fixpoint model_trace (s : state) (evs : list event) : list obs :=
  match evs with
  | [] => []
  | e :: tl => let '(s', o) := step s e in
               mkObs e (o_reply o) 0 (o_calls o) (dump_of s') :: model_trace s' tl
  end.
