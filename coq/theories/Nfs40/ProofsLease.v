(* C18, lease side: the facts of the NFSv4.0 model on which the monitor's
   lease rule (Spec.lease_step: a client confirmation leaves the tables only
   when nothing was heard of it for a lease period, never while one of its
   calls is parked in the file system) rests:
     - enter() discards a confirmation only if its lastSeen + lease < now;
     - release() stamps lastSeen with now when the last hold is dropped;
     - now >= the clock reading the critical section started with;
     - READ/WRITE/SETATTR with a regular state ID hold the client for the
       duration of the call and the return renews the lease.
   Statements about one critical section in an arbitrary state. *)
From VF Require Import Nfs40.Model Nfs40.ProofsInv.
From Coq Require Import Lia ZifyBool ZifyN ZifyNat.
Open Scope N_scope.

(* ---- frame: what leaves confirmations, idle list and clock alone ---------- *)
Definition cview (s : state) := (st_confs s, st_idle s, st_now s).
Definition csame (f : state -> state) : Prop := forall s, cview (f s) = cview s.

Lemma cview_confs : forall s s', cview s' = cview s -> st_confs s' = st_confs s.
Proof. intros s s' H. unfold cview in H. congruence. Qed.
Lemma cview_now : forall s s', cview s' = cview s -> st_now s' = st_now s.
Proof. intros s s' H. unfold cview in H. congruence. Qed.
Lemma cview_idle : forall s s', cview s' = cview s -> st_idle s' = st_idle s.
Proof. intros s s' H. unfold cview in H. congruence. Qed.

Lemma csame_fold : forall {A} (f : state -> A -> state) (l : list A),
  (forall a, csame (fun s => f s a)) -> csame (fun s => fold_left f l s).
Proof.
  intros A f l Hf. induction l as [|a tl IH]; intros s; simpl; [reflexivity|].
  rewrite (IH (f s a)). apply (Hf a).
Qed.

Lemma csame_emit_close : forall h m, csame (emit_close h m).
Proof. intros h m s. unfold emit_close. destruct (mask_empty m); reflexivity. Qed.

Lemma csame_pool_close : forall h, csame (pool_close h).
Proof.
  intros h s. unfold pool_close. destruct (find_pfile h s) as [p|]; [|reflexivity].
  destruct (pf_use p <=? 1); reflexivity.
Qed.

Lemma csame_oofs_release : forall other cleared, csame (oofs_release other cleared).
Proof.
  intros other cleared s. unfold oofs_release. destruct (find_oofs other s) as [o|]; [|reflexivity].
  destruct (dec_count (of_rd o) (m_r cleared)) as [[rd zr] pr]. destruct (dec_count (of_wr o) (m_w cleared)) as [[wr zw] pw].
  unfold gc_oofs. destruct (pr || pw); unfold cview; simpl;
    match goal with |- context [emit_close ?h ?m ?x] => pose proof (csame_emit_close h m x) as E end;
    unfold cview in E; simpl in E; inversion E; reflexivity.
Qed.

Lemma csame_oofs_set_sa : forall other m, csame (oofs_set_sa other m).
Proof. intros other m s. reflexivity. Qed.
Lemma csame_oofs_bump_seq : forall other, csame (oofs_bump_seq other).
Proof. intros other s. reflexivity. Qed.
Lemma csame_oofs_clone : forall other m, csame (oofs_clone other m).
Proof.
  intros other m s. unfold oofs_clone. destruct (find_oofs other s) as [o|]; [|reflexivity].
  destruct (inc_count (of_rd o) (m_r m)) as [rd pr]. destruct (inc_count (of_wr o) (m_w m)) as [wr pw].
  destruct (pr || pw); reflexivity.
Qed.

Lemma csame_lofs_remove : forall other, csame (lofs_remove other).
Proof.
  intros other s. unfold lofs_remove. destruct (find_lofs other s) as [lf|]; [|reflexivity].
  match goal with |- cview (if _ then ?a else _) = _ => set (s2 := a) end.
  assert (E : cview s2 = cview s).
  { unfold s2. rewrite csame_oofs_release.
    destruct (0 <? lf_count lf)%Z; [|reflexivity].
    destruct (find_oofs (lf_oofs lf) s) as [o|]; [|reflexivity]. destruct (find_los (lf_client lf, lf_lokey lf) s); [|reflexivity].
    destruct (find_pfile (of_handle o) s); [|reflexivity].
    match goal with |- cview (w_lofs (if ?c then _ else _) _) = _ => destruct c end; reflexivity. }
  destruct (existsb _ _); [exact E|]. unfold cview in *. simpl. exact E.
Qed.

Lemma csame_oofs_remove_start : forall other, csame (oofs_remove_start other).
Proof.
  intros other s. unfold oofs_remove_start.
  pose proof (csame_fold (fun s o => lofs_remove o s) (lofs_others_of_oofs other s) (fun a => csame_lofs_remove a) s) as E.
  cbv beta in E. destruct (find_oofs other _); [|unfold cview in *; simpl; exact E].
  rewrite csame_oofs_set_sa, csame_oofs_release. exact E.
Qed.

Lemma csame_oofs_finalize : forall other, csame (oofs_finalize other).
Proof.
  intros other s. unfold oofs_finalize. destruct (find_oofs other s) as [o|]; [|reflexivity].
  destruct (of_live o); [|reflexivity].
  unfold gc_oofs.
  match goal with |- context [pool_close ?h ?x] => pose proof (csame_pool_close h x) as E end.
  unfold cview in *. simpl in *. exact E.
Qed.

Lemma csame_forget_last : forall ck, csame (forget_last ck).
Proof.
  intros ck s. unfold forget_last. destruct (find_oos ck s) as [o|]; [|reflexivity]. destruct (oo_last o) as [c|]; [|reflexivity].
  destruct (ca_closed c); [rewrite csame_oofs_finalize|]; reflexivity.
Qed.

Lemma csame_oos_reinit : forall ck, csame (oos_reinit ck).
Proof.
  intros ck s. unfold oos_reinit.
  set (s0 := match find_oos ck s with Some o => if oo_intx o then panic s else s | None => s end).
  assert (E0 : cview s0 = cview s) by (unfold s0; destruct (find_oos ck s) as [o|]; [destruct (oo_intx o)|]; reflexivity).
  pose proof (csame_fold (fun s o => oofs_finalize o (oofs_remove_start o s)) (oofs_others_of_owner ck (forget_last ck s0))
                (fun a s => eq_trans (csame_oofs_finalize a _) (csame_oofs_remove_start a s)) (forget_last ck s0)) as E.
  cbv beta in E. rewrite E, csame_forget_last. exact E0.
Qed.

Lemma csame_oos_remove : forall ck, csame (oos_remove ck).
Proof.
  intros ck s. unfold oos_remove. pose proof (csame_oos_reinit ck s) as E. unfold cview in *. simpl. exact E.
Qed.

Lemma csame_expire_oos : forall fuel minseen, csame (expire_oos fuel minseen).
Proof.
  induction fuel as [|fuel IH]; intros minseen s; simpl; [reflexivity|].
  destruct (st_unused s) as [|p tl]; [reflexivity|]. destruct (find_oos p s) as [o|]; [|reflexivity].
  destruct (oo_lastused o <? minseen)%Z; [|reflexivity]. rewrite IH. apply csame_oos_remove.
Qed.

(* ---- clientConfirmationState.remove: exactly the named confirmation goes ---- *)
Lemma conf_remove_confs : forall short s c,
  find_conf short s = Some c ->
  st_confs (conf_remove short s) = del_by (fun c => cf_short c =? short) (st_confs s)
  /\ st_now (conf_remove short s) = st_now s.
Proof.
  intros short s c Hf. unfold conf_remove. rewrite Hf.
  set (s0 := if cf_hold c =? 0 then s else panic s).
  assert (E0 : cview s0 = cview s) by (unfold s0; destruct (cf_hold c =? 0); reflexivity).
  match goal with |- context [w_confs ?x _] => set (s1 := x) end.
  assert (E1 : cview s1 = cview s).
  { unfold s1. destruct (confirmed_of (cf_long c) s0) as [sh|]; [|exact E0]. destruct (sh =? short); [|exact E0].
    match goal with |- cview (w_confirmed (if _ then panic ?a else ?a) _) = _ => assert (E : cview a = cview s0) end.
    { apply (csame_fold (fun s ck => oos_remove ck s) _ (fun a => csame_oos_remove a)). }
    destruct (existsb _ _); unfold cview in *; simpl; rewrite <- E0; exact E. }
  simpl. rewrite (cview_confs _ _ E1), (cview_now _ _ E1). split; reflexivity.
Qed.

Lemma expire_confs_now : forall fuel minseen s, st_now (expire_confs fuel minseen s) = st_now s.
Proof.
  induction fuel as [|fuel IH]; intros minseen s; simpl; [reflexivity|].
  destruct (st_idle s) as [|short tl]; [reflexivity|]. destruct (find_conf short s) as [c|] eqn:Ef; [|reflexivity].
  destruct (cf_lastseen c <? minseen)%Z; [|reflexivity]. rewrite IH. apply (conf_remove_confs short s c Ef).
Qed.

(* enter()'s first loop discards a confirmation only if its lastSeen is before
   the threshold *)
Lemma expire_confs_only_lapsed : forall fuel minseen s short,
  (exists c, In c (st_confs s) /\ cf_short c = short) ->
  (forall c, In c (st_confs (expire_confs fuel minseen s)) -> cf_short c <> short) ->
  exists c, In c (st_confs s) /\ cf_short c = short /\ (cf_lastseen c < minseen)%Z.
Proof.
  induction fuel as [|fuel IH]; intros minseen s short (c0&Hin0&Hs0) Hgone; simpl in Hgone.
  - exfalso. apply (Hgone c0 Hin0 Hs0).
  - destruct (st_idle s) as [|short' tl]; [exfalso; apply (Hgone c0 Hin0 Hs0)|].
    destruct (find_conf short' s) as [c'|] eqn:Ef; [|exfalso; apply (Hgone c0 Hin0 Hs0)].
    destruct (cf_lastseen c' <? minseen)%Z eqn:El; [|exfalso; apply (Hgone c0 Hin0 Hs0)].
    destruct (conf_remove_confs short' s c' Ef) as (Ec&_).
    destruct (short' =? short) eqn:Es.
    + apply N.eqb_eq in Es. subst short'. unfold find_conf in Ef. apply find_by_In in Ef. destruct Ef as (Hin&Hp).
      exists c'. split; [exact Hin|]. split; [apply N.eqb_eq; exact Hp|]. apply Z.ltb_lt. exact El.
    + apply N.eqb_neq in Es.
      destruct (IH minseen (conf_remove short' s) short) as (c&Hin&Hs&Hl).
      * exists c0. split; [|exact Hs0]. rewrite Ec. apply In_del_by. split; [exact Hin0|].
        apply N.eqb_neq. rewrite Hs0. intros E. apply Es. symmetry. exact E.
      * exact Hgone.
      * exists c. split; [|split; assumption]. rewrite Ec in Hin. apply In_del_by in Hin. apply Hin.
Qed.

Lemma enter_now : forall t s, st_now (enter t s) = Z.max (st_now s) t.
Proof.
  intros t s. unfold enter. cbv zeta.
  rewrite (cview_now _ _ (csame_expire_oos _ _ _)), expire_confs_now. reflexivity.
Qed.

(* enter() (lease expiry) discards a client confirmation only if its lastSeen
   is more than a lease period before the program's clock *)
Theorem enter_expires_only_lapsed : forall t s short,
  (exists c, In c (st_confs s) /\ cf_short c = short) ->
  (forall c, In c (st_confs (enter t s)) -> cf_short c <> short) ->
  exists c, In c (st_confs s) /\ cf_short c = short /\ (cf_lastseen c + lease < st_now (enter t s))%Z.
Proof.
  intros t s short Hex Hgone. rewrite enter_now. unfold enter in Hgone. cbv zeta in Hgone.
  rewrite (cview_confs _ _ (csame_expire_oos _ _ _)) in Hgone.
  destruct (expire_confs_only_lapsed _ _ (w_now s (Z.max (st_now s) t)) short Hex Hgone) as (c&Hin&Hs&Hl).
  exists c. split; [exact Hin|]. split; [exact Hs|]. simpl in Hl. lia.
Qed.

Lemma enter_clock : forall t s, (t <= st_now (enter t s))%Z /\ (st_now s <= st_now (enter t s))%Z.
Proof. intros t s. rewrite enter_now. lia. Qed.

(* ---- hold / release ------------------------------------------------------------ *)
Lemma find_by_upd_by : forall {A} (p : A -> bool) (f : A -> A) (l : list A) x,
  find_by p l = Some x -> p (f x) = true -> find_by p (upd_by p f l) = Some (f x).
Proof.
  intros A p f l x. induction l as [|y tl IH]; simpl; intros H Hp; [discriminate|].
  destruct (p y) eqn:Ey.
  - inversion H; subst y. simpl. rewrite Hp. reflexivity.
  - simpl. rewrite Ey. apply IH; assumption.
Qed.

(* hold(): one more hold on the confirmation *)
Lemma hold_counts : forall short s c, find_conf short s = Some c ->
  exists c', find_conf short (hold short s) = Some c' /\ cf_hold c' = cf_hold c + 1 /\ cf_lastseen c' = cf_lastseen c.
Proof.
  intros short s c Hf. unfold hold. rewrite Hf.
  assert (Hp : cf_short c =? short = true) by (unfold find_conf in Hf; apply find_by_In in Hf; apply Hf).
  eexists. split.
  - unfold find_conf, upd_conf.
    assert (E : st_confs (if cf_hold c =? 0 then w_idle s (del_by (N.eqb short) (st_idle s)) else s) = st_confs s)
      by (destruct (cf_hold c =? 0); reflexivity).
    simpl. rewrite E. apply (find_by_upd_by (fun c => cf_short c =? short)); [exact Hf|exact Hp].
  - split; reflexivity.
Qed.

(* release() of the last hold stamps lastSeen with the program's clock *)
Theorem release_records_now : forall short s c, find_conf short s = Some c -> cf_hold c = 1 ->
  exists c', find_conf short (release short s) = Some c' /\ cf_hold c' = 0 /\ cf_lastseen c' = st_now s.
Proof.
  intros short s c Hf Hh. unfold release. rewrite Hf, Hh. simpl.
  assert (Hp : cf_short c =? short = true) by (unfold find_conf in Hf; apply find_by_In in Hf; apply Hf).
  eexists. split.
  - unfold find_conf, upd_conf. simpl. apply (find_by_upd_by (fun c => cf_short c =? short)); [exact Hf|exact Hp].
  - split; reflexivity.
Qed.

(* ---- READ / WRITE / SETATTR with a regular state ID ---------------------------- *)
(* the first critical section leaves the client held (so it is not on the idle
   list and enter() cannot expire it) and records which client the call pins *)
Theorem io_pins_client : forall g t c k sid openerr ioerr s s' sq other,
  internalize sid = IsReg sq other ->
  do_io g t c k sid openerr ioerr s = (s', RpParkedIo) ->
  exists oother client, In (g, PIo oother client (io_access k)) (st_pending s')
    /\ forall cf0, find_conf client (enter t s) = Some cf0 ->
         exists cf, find_conf client s' = Some cf /\ cf_hold cf = cf_hold cf0 + 1.
Proof.
  intros g t c k sid openerr ioerr s s' sq other Hi H. unfold do_io in H. rewrite Hi in H. cbv zeta in H.
  match type of H with (match ?f with inl _ => _ | inr _ => _ end) = _ => destruct f as [[oother client]|st] end; [|inversion H].
  inversion H; subst s'. clear H. exists oother, client. split.
  - simpl. apply in_or_app. right. left. reflexivity.
  - intros cf0 Hf. destruct (hold_counts client (enter t s) cf0 Hf) as (cf&Hf'&Hh&_).
    exists cf. split; [|exact Hh]. unfold find_conf in *. simpl.
    rewrite (cview_confs _ _ (csame_oofs_clone oother (io_access k) (hold client (enter t s)))). exact Hf'.
Qed.

(* the second critical section drops the hold; when it was the last one the
   lease is renewed with a clock reading >= the one the return carried *)
Theorem io_return_renews_lease : forall g t st s other client cloned cf0,
  find_by (fun p => fst p =? g) (st_pending s) = Some (g, PIo other client cloned) ->
  find_conf client (enter t s) = Some cf0 -> cf_hold cf0 = 1 ->
  exists cf, find_conf client (fst (do_io_ret g t st s)) = Some cf /\ cf_hold cf = 0
             /\ (t <= cf_lastseen cf)%Z /\ cf_lastseen cf = st_now (fst (do_io_ret g t st s)).
Proof.
  intros g t st s other client cloned cf0 Hp Hf Hh. unfold do_io_ret. rewrite Hp. simpl fst.
  set (s2 := oofs_release other cloned (w_pending (enter t s) (del_by (fun p => fst p =? g) (st_pending (enter t s))))).
  assert (E : cview s2 = cview (enter t s)) by (unfold s2; rewrite csame_oofs_release; reflexivity).
  assert (Hf2 : find_conf client s2 = Some cf0) by (unfold find_conf in *; rewrite (cview_confs _ _ E); exact Hf).
  destruct (release_records_now client s2 cf0 Hf2 Hh) as (cf&Hf'&Hh'&Hl).
  exists cf. split; [exact Hf'|]. split; [exact Hh'|]. rewrite Hl, (cview_now _ _ E).
  split; [apply enter_clock|].
  unfold release. rewrite Hf2, Hh. simpl. rewrite (cview_now _ _ E). reflexivity.
Qed.
