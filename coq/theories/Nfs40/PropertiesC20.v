(* C20 through the NFSv4.0 model - the property theorems, and nothing else. *)
From VF Require Import Nfs40.Model Nfs40.Proofs20 Nfs40.ProofsAux.
From VF Require LockSet.Spec.
Open Scope N_scope.

(* lockt_iff_lock: LOCKT reports exactly the conflict that makes LOCK with the
   same arguments by the same lock-owner fail, and none exactly when LOCK is granted *)
Theorem lockt_iff_lock : forall s lfother lf o l p ltype off len st en ty,
  find_lofs lfother s = Some lf ->
  find_oofs (lf_oofs lf) s = Some o ->
  find_los (lf_client lf, lf_lokey lf) s = Some l ->
  find_pfile (of_handle o) s = Some p ->
  LS.offset_length_to_start_end off len = Some (st, en) ->
  lock_type ltype = Some ty ->
  match LS.test (pf_locks p) (LS.mkLock st en (lo_id l) ty) with
  | Some c =>
      lockt_res s (of_handle o) (lf_client lf, lf_lokey lf) ltype off len = denied_of c s
      /\ tx_lock_common lfother ltype off len s = (s, denied_of c s)
  | None =>
      lockt_res s (of_handle o) (lf_client lf, lf_lokey lf) ltype off len = ok_res
      /\ exists s', tx_lock_common lfother ltype off len s = (s', ResStateid (next_seq (lf_seq lf)) lfother)
  end.
Proof. exact Proofs20.lockt_iff_lock. Qed.
Print Assumptions lockt_iff_lock.

Theorem lockt_is_lockt_res : forall t h ltype off len client owner s,
  confirmed_client client (enter t s) = true ->
  do_lockt t (CurLeaf h) ltype off len client owner s
  = (release client (hold client (enter t s)),
     RpOp (lockt_res (hold client (enter t s)) h (client, owner) ltype off len)).
Proof. exact do_lockt_res. Qed.
Print Assumptions lockt_is_lockt_res.

(* own locks never conflict: a denial names a lock of another owner object that really conflicts *)
Theorem denial_is_by_other_owner : forall (tbl : list LS.lock) (q c : LS.lock),
  LS.test tbl q = Some c -> In c tbl /\ LS.lowner c <> LS.lowner q /\ VF.LockSet.Spec.conflicts c q = true.
Proof. exact Proofs20.denial_is_by_other_owner. Qed.
Print Assumptions denial_is_by_other_owner.

(* lockCount gate of RELEASE_LOCKOWNER *)
Theorem release_lockowner_gate : forall t client owner s l,
  confirmed_client client (enter t s) = true ->
  let s1 := hold client (enter t s) in
  find_los (client, owner) s1 = Some l ->
  existsb (fun f => (0 <? lf_count f)%Z) (filter (lofs_of_los (client, owner)) (st_lofs s1)) = true ->
  do_release_lockowner t client owner s = (release client s1, RpOp (ResStatus ERR_LOCKS_HELD)).
Proof. exact Proofs20.release_lockowner_gate. Qed.
Print Assumptions release_lockowner_gate.

(* one_owner_one_object: in every reachable state there is at most one
   lock-owner object per (client, owner) and different lock-owners have
   different identities in the lock tables *)
Theorem one_owner_one_object : forall evs a b,
  In a (st_los (state_after evs)) -> In b (st_los (state_after evs)) ->
  ((lo_client a, lo_key a) = (lo_client b, lo_key b) -> a = b) /\ (lo_id a = lo_id b -> a = b).
Proof. exact ProofsAux.one_owner_one_object. Qed.
Print Assumptions one_owner_one_object.
