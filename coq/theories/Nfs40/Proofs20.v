(* C20 through the NFSv4.0 model: LOCKT and LOCK consult the same table with
   the same owner identity; an owner's own locks never deny it. *)
From VF Require Import Nfs40.Model.
From VF Require LockSet.Spec LockSet.Proofs.
From Coq Require Import Lia.
Open Scope N_scope.

(* what opLockt answers in a state (after enter and hold) *)
Definition lockt_res (s : state) (h : N) (lk : N * N) (ltype off len : N) : opres :=
  let id := match find_los lk s with Some l => lo_id l | None => 0 end in
  match LS.offset_length_to_start_end off len with
  | None => ResStatus ERR_INVAL
  | Some (st, en) =>
    match lock_type ltype with
    | None => ResStatus ERR_INVAL
    | Some ty =>
      match find_pfile h s with
      | None => ok_res
      | Some p => match LS.test (pf_locks p) (LS.mkLock st en id ty) with
                  | Some cl => denied_of cl s
                  | None => ok_res
                  end
      end
    end
  end.

Lemma do_lockt_res : forall t h ltype off len client owner s,
  confirmed_client client (enter t s) = true ->
  do_lockt t (CurLeaf h) ltype off len client owner s
  = (release client (hold client (enter t s)),
     RpOp (lockt_res (hold client (enter t s)) h (client, owner) ltype off len)).
Proof.
  intros t h ltype off len client owner s Hc. unfold do_lockt. rewrite Hc. reflexivity.
Qed.

(* lockt_iff_lock: for a lock-owner that has a lock-owner file on the file,
   LOCKT reports exactly the conflict that makes LOCK with the same arguments
   fail, and reports none exactly when LOCK is granted. *)
Theorem lockt_iff_lock : forall s lfother lf o l p ltype off len st en ty,
  find_lofs lfother s = Some lf ->
  find_oofs (lf_oofs lf) s = Some o ->
  find_los (lf_client lf, lf_lokey lf) s = Some l ->
  find_pfile (of_handle o) s = Some p ->
  LS.offset_length_to_start_end off len = Some (st, en) ->
  lock_type ltype = Some ty ->
  match LS.test (pf_locks p) (LS.mkLock st en (lo_id l) ty) with
  | Some c =>
      lockt_res s (of_handle o) (lf_client lf, lf_lokey lf) ltype off len = denied_of c s
      /\ tx_lock_common lfother ltype off len s = (s, denied_of c s)
  | None =>
      lockt_res s (of_handle o) (lf_client lf, lf_lokey lf) ltype off len = ok_res
      /\ exists s', tx_lock_common lfother ltype off len s = (s', ResStateid (next_seq (lf_seq lf)) lfother)
  end.
Proof.
  intros s lfother lf o l p ltype off len st en ty Hlf Ho Hl Hp Hr Hty.
  unfold lockt_res, tx_lock_common. rewrite Hlf, Ho, Hl, Hp, Hr, Hty.
  destruct (LS.test (pf_locks p) (LS.mkLock st en (lo_id l) ty)) as [c|].
  - split; reflexivity.
  - split; [reflexivity|]. eexists. reflexivity.
Qed.

(* An owner's own locks never conflict: the lock reported by a denial belongs
   to another owner object and really conflicts. *)
Theorem denial_is_by_other_owner : forall (tbl : list LS.lock) (q c : LS.lock),
  LS.test tbl q = Some c -> In c tbl /\ LS.lowner c <> LS.lowner q /\ VF.LockSet.Spec.conflicts c q = true.
Proof.
  intros tbl q c H. destruct (VF.LockSet.Proofs.test_some _ _ _ H) as [Hin Hc].
  split; [exact Hin|]. split; [|exact Hc].
  unfold VF.LockSet.Spec.conflicts in Hc.
  apply andb_prop in Hc. destruct Hc as [Hc _]. apply andb_prop in Hc. destruct Hc as [Hc _].
  apply Bool.negb_true_iff in Hc. apply N.eqb_neq in Hc. exact Hc.
Qed.

(* RELEASE_LOCKOWNER gate: with a lock held by one of the owner's files the
   answer is NFS4ERR_LOCKS_HELD and no lock-owner file is touched. *)
Theorem release_lockowner_gate : forall t client owner s l,
  confirmed_client client (enter t s) = true ->
  let s1 := hold client (enter t s) in
  find_los (client, owner) s1 = Some l ->
  existsb (fun f => (0 <? lf_count f)%Z) (filter (lofs_of_los (client, owner)) (st_lofs s1)) = true ->
  do_release_lockowner t client owner s = (release client s1, RpOp (ResStatus ERR_LOCKS_HELD)).
Proof.
  intros t client owner s l Hc s1 Hl Hh. unfold do_release_lockowner. rewrite Hc. simpl.
  fold s1. rewrite Hl, Hh. reflexivity.
Qed.
