(* More invariants of the NFSv4.0 model over all histories:
   - the opened-files pool counts exactly the open-owner files in the tables,
     so the handle of an open file always resolves (open_stays_resolvable);
   - lock-owner objects: at most one per (client, owner), pairwise distinct
     identities (one_owner_one_object). *)
From VF Require Import Nfs40.Model Nfs40.Proofs19 Nfs40.ProofsInv Nfs40.ProofsInv2.
From Coq Require Import Lia ZifyBool ZifyN ZifyNat.
Open Scope N_scope.

Definition live_on (s : state) (h : N) : Z := cntb (fun o => of_live o && (of_handle o =? h)) (st_oofs s).
Definition use_of (s : state) (h : N) : Z :=
  match find_pfile h s with Some p => Z.of_N (pf_use p) | None => 0%Z end.
Definition loskeys (s : state) : list (N * N * N) := map (fun l => (lo_client l, lo_key l, lo_id l)) (st_los s).

Definition xeq (s s' : state) : Prop :=
  (forall h, live_on s' h = live_on s h) /\ (forall h, use_of s' h = use_of s h)
  /\ loskeys s' = loskeys s /\ st_next_id s' = st_next_id s.

Lemma xeq_refl : forall s, xeq s s. Proof. intros. repeat split. Qed.
Lemma xeq_trans : forall a b c, xeq a b -> xeq b c -> xeq a c.
Proof.
  unfold xeq. intros a b c (A1&A2&A3&A4) (B1&B2&B3&B4).
  split; [intros; rewrite B1; apply A1|]. split; [intros; rewrite B2; apply A2|]. split; congruence.
Qed.

Definition PoolOk (s : state) : Prop := forall h, use_of s h = live_on s h.
Definition LosOk (s : state) : Prop :=
  NoDup (map (fun k => (fst (fst k), snd (fst k))) (loskeys s))
  /\ NoDup (map snd (loskeys s))
  /\ forall k, In k (loskeys s) -> snd k < st_next_id s.
Definition X (s : state) : Prop := PoolOk s /\ LosOk s.

Lemma xeq_X : forall s s', xeq s s' -> X s -> X s'.
Proof.
  unfold xeq, X, PoolOk, LosOk. intros s s' (E1&E2&E3&E4) [HP HL]. rewrite E3, E4.
  split; [|exact HL]. intros h. rewrite E1, E2. apply HP.
Qed.

Definition presX (f : state -> state) : Prop := forall s, X s -> X (f s).

Lemma presX_xeq : forall f, (forall s, xeq s (f s)) -> presX f.
Proof. intros f H s Hx. eapply xeq_X; [apply H|exact Hx]. Qed.
Lemma presX_comp : forall f g, presX f -> presX g -> presX (fun s => g (f s)).
Proof. intros f g Hf Hg s H. apply Hg. apply Hf. exact H. Qed.
Lemma presX_fold : forall {A} (f : state -> A -> state) (l : list A),
  (forall a, presX (fun s => f s a)) -> presX (fun s => fold_left f l s).
Proof.
  intros A f l Hf. induction l as [|a tl IH]; intros s H; simpl; [exact H|]. apply IH. apply (Hf a). exact H.
Qed.

(* updating the first element that satisfies p *)
Lemma cntb_upd_by_first : forall {A} (p q : A -> bool) (f : A -> A) (l : list A) o,
  find_by p l = Some o ->
  cntb q (upd_by p f l) = (cntb q l - (if q o then 1 else 0) + (if q (f o) then 1 else 0))%Z.
Proof.
  intros A p q f l o. induction l as [|x tl IH]; simpl; intros H; [discriminate|].
  destruct (p x).
  - inversion H; subst. rewrite !cntb_cons. lia.
  - rewrite !cntb_cons, (IH H). lia.
Qed.

(* ---- functions that leave the projections alone --------------------------------------------------------- *)
Lemma xeq_upd_oofs : forall other f s,
  (forall x, of_live (f x) = of_live x /\ of_handle (f x) = of_handle x) -> xeq s (upd_oofs other f s).
Proof.
  intros other f s Hf. split; [|repeat split]. intros h. unfold live_on, upd_oofs. simpl.
  apply cntb_upd_by_same. intros x. destruct (Hf x) as [E1 E2]. rewrite E1, E2. reflexivity.
Qed.

Lemma find_by_upd_by_other : forall {A} (p q : A -> bool) (f : A -> A) (l : list A),
  (forall x, q (f x) = q x) -> (forall x, p x = true -> q x = false) -> find_by q (upd_by p f l) = find_by q l.
Proof.
  intros A p q f l Hq Hpq. induction l as [|x tl IH]; simpl; [reflexivity|].
  destruct (p x) eqn:Ep; simpl.
  - rewrite Hq, (Hpq x Ep). reflexivity.
  - destruct (q x); [reflexivity|exact IH].
Qed.

Lemma use_of_upd_pfile : forall h f s,
  (forall p, pf_handle (f p) = pf_handle p /\ pf_use (f p) = pf_use p) -> forall h', use_of (upd_pfile h f s) h' = use_of s h'.
Proof.
  intros h f s Hf h'. unfold use_of, find_pfile, upd_pfile. simpl.
  destruct (h' =? h) eqn:E.
  - apply N.eqb_eq in E. subst h'. rewrite (find_by_upd_by (fun p => pf_handle p =? h) f (st_pool s)).
    + destruct (find_by _ (st_pool s)); simpl; [destruct (Hf p) as [_ E2]; rewrite E2|]; reflexivity.
    + intros x Hx. destruct (Hf x) as [E1 _]. rewrite E1. exact Hx.
  - rewrite (find_by_upd_by_other (fun p => pf_handle p =? h) (fun p => pf_handle p =? h') f); [reflexivity| |].
    + intros x. destruct (Hf x) as [E1 _]. rewrite E1. reflexivity.
    + intros x Hx. apply N.eqb_eq in Hx. rewrite Hx. apply N.eqb_neq. apply N.eqb_neq in E. congruence.
Qed.
Lemma xeq_upd_pfile : forall h f s,
  (forall p, pf_handle (f p) = pf_handle p /\ pf_use (f p) = pf_use p) -> xeq s (upd_pfile h f s).
Proof. intros. split; [reflexivity|]. split; [apply use_of_upd_pfile; assumption|repeat split]. Qed.

Lemma xeq_upd_los : forall lk f s,
  (forall l, lo_client (f l) = lo_client l /\ lo_key (f l) = lo_key l /\ lo_id (f l) = lo_id l) -> xeq s (upd_los lk f s).
Proof.
  intros lk f s Hf. split; [reflexivity|]. split; [reflexivity|]. split; [|reflexivity].
  unfold loskeys, upd_los. simpl. apply upd_by_map_same.
  intros l. destruct (Hf l) as (E1&E2&E3). rewrite E1, E2, E3. reflexivity.
Qed.

Lemma xeq_panic : forall s, xeq s (panic s). Proof. intros. repeat split. Qed.
Lemma xeq_w_now : forall s v, xeq s (w_now s v). Proof. intros. repeat split. Qed.
Lemma xeq_w_rng : forall s v, xeq s (w_rng s v). Proof. intros. repeat split. Qed.
Lemma xeq_w_confs : forall s v, xeq s (w_confs s v). Proof. intros. repeat split. Qed.
Lemma xeq_w_confirmed : forall s v, xeq s (w_confirmed s v). Proof. intros. repeat split. Qed.
Lemma xeq_w_idle : forall s v, xeq s (w_idle s v). Proof. intros. repeat split. Qed.
Lemma xeq_w_oos : forall s v, xeq s (w_oos s v). Proof. intros. repeat split. Qed.
Lemma xeq_w_unused : forall s v, xeq s (w_unused s v). Proof. intros. repeat split. Qed.
Lemma xeq_w_lofs : forall s v, xeq s (w_lofs s v). Proof. intros. repeat split. Qed.
Lemma xeq_w_pending : forall s v, xeq s (w_pending s v). Proof. intros. repeat split. Qed.
Lemma xeq_w_ll : forall s v, xeq s (w_ll s v). Proof. intros. repeat split. Qed.
Lemma xeq_upd_conf : forall sh f s, xeq s (upd_conf sh f s). Proof. intros. repeat split. Qed.
Lemma xeq_upd_oos : forall ck f s, xeq s (upd_oos ck f s). Proof. intros. repeat split. Qed.
Lemma xeq_upd_lofs : forall o f s, xeq s (upd_lofs o f s). Proof. intros. repeat split. Qed.

Lemma xeq_hold : forall sh s, xeq s (hold sh s).
Proof.
  intros. unfold hold. destruct (find_conf sh s); [|apply xeq_panic].
  eapply xeq_trans; [|apply xeq_upd_conf]. destruct (cf_hold c =? 0); [apply xeq_w_idle|apply xeq_refl].
Qed.
Lemma xeq_release : forall sh s, xeq s (release sh s).
Proof.
  intros. unfold release. destruct (find_conf sh s); [|apply xeq_panic].
  destruct (cf_hold c =? 0); [apply xeq_panic|]. destruct (cf_hold c =? 1).
  - eapply xeq_trans; [apply xeq_upd_conf|apply xeq_w_idle].
  - apply xeq_upd_conf.
Qed.
Lemma xeq_emit_close : forall h m s, xeq s (emit_close h m s).
Proof. intros. unfold emit_close. destruct (mask_empty m); [apply xeq_refl|apply xeq_w_ll]. Qed.

Lemma xeq_gc_oofs : forall other s, xeq s (gc_oofs other s).
Proof.
  intros other s. unfold gc_oofs. split; [|repeat split]. intros h. unfold live_on. simpl.
  apply cntb_del_absent. intros x _ Hq.
  apply andb_prop in Hq. destruct Hq as [Hq _]. apply andb_prop in Hq. destruct Hq as [Hq _].
  apply andb_prop in Hq. destruct Hq as [_ Hq]. apply Bool.negb_true_iff in Hq. rewrite Hq. reflexivity.
Qed.

Ltac same3 := intros; repeat split; reflexivity.

Lemma xeq_oofs_release : forall other cleared s, xeq s (oofs_release other cleared s).
Proof.
  intros other cleared s. unfold oofs_release. destruct (find_oofs other s); [|apply xeq_panic].
  destruct (dec_count (of_rd o) (m_r cleared)) as [[rd zr] pr]. destruct (dec_count (of_wr o) (m_w cleared)) as [[wr zw] pw].
  eapply xeq_trans; [|apply xeq_gc_oofs].
  assert (E : xeq s (emit_close (of_handle o) (mkMask zr zw)
     (upd_oofs other (fun o0 => mkOofs (of_other o0) (of_seq o0) (of_client o0) (of_owner o0) (of_handle o0) (of_sa o0) rd wr (of_live o0)) s))).
  { eapply xeq_trans; [|apply xeq_emit_close]. apply xeq_upd_oofs; same3. }
  destruct (pr || pw); [eapply xeq_trans; [exact E|apply xeq_panic]|exact E].
Qed.
Lemma xeq_oofs_clone : forall other m s, xeq s (oofs_clone other m s).
Proof.
  intros other m s. unfold oofs_clone. destruct (find_oofs other s); [|apply xeq_panic].
  destruct (inc_count (of_rd o) (m_r m)) as [rd pr]. destruct (inc_count (of_wr o) (m_w m)) as [wr pw].
  destruct (pr || pw); [eapply xeq_trans; [|apply xeq_panic]|]; apply xeq_upd_oofs; same3.
Qed.
Lemma xeq_oofs_set_sa : forall other m s, xeq s (oofs_set_sa other m s).
Proof. intros. apply xeq_upd_oofs. same3. Qed.
Lemma xeq_oofs_bump_seq : forall other s, xeq s (oofs_bump_seq other s).
Proof. intros. apply xeq_upd_oofs. same3. Qed.
Lemma xeq_oofs_upgrade : forall other acc s, xeq s (oofs_upgrade other acc s).
Proof.
  intros other acc s. unfold oofs_upgrade. destruct (find_oofs other s); [|apply xeq_panic].
  eapply xeq_trans; [|apply xeq_emit_close]. apply xeq_upd_oofs; same3.
Qed.

(* ---- lock-owners ------------------------------------------------------------------------------------------ *)
Lemma LosOk_del : forall s lk, LosOk s -> LosOk (w_los s (del_by (los_is lk) (st_los s))).
Proof.
  intros s lk (L1&L2&L3). unfold LosOk, loskeys in *. simpl. unfold del_by. rewrite !map_map in *. split; [|split].
  - apply NoDup_map_filter. exact L1.
  - apply NoDup_map_filter. exact L2.
  - intros k Hk. apply L3. apply in_map_iff in Hk. destruct Hk as [l [E Hl]]. apply filter_In in Hl.
    apply in_map_iff. exists l. tauto.
Qed.

Lemma presX_lofs_remove : forall other, presX (lofs_remove other).
Proof.
  intros other s HX. unfold lofs_remove. destruct (find_lofs other s) as [lf|]; [|exact HX].
  match goal with |- X (if _ then ?a else _) => set (s2 := a) end.
  assert (E : xeq s s2).
  { unfold s2. eapply xeq_trans; [|apply xeq_oofs_release]. eapply xeq_trans; [|apply xeq_w_lofs].
    destruct (0 <? lf_count lf)%Z; [|apply xeq_refl].
    destruct (find_oofs (lf_oofs lf) s); [|apply xeq_panic]. destruct (find_los (lf_client lf, lf_lokey lf) s); [|apply xeq_panic].
    destruct (find_pfile (of_handle o) s); [|apply xeq_panic].
    match goal with |- xeq _ (if ?c then _ else _) => destruct c end;
      [eapply xeq_trans; [|apply xeq_panic]|]; apply xeq_upd_pfile; same3. }
  pose proof (xeq_X _ _ E HX) as [P2 L2].
  destruct (existsb _ _); [split; assumption|].
  split; [exact P2|apply LosOk_del; exact L2].
Qed.

(* ---- the pool ------------------------------------------------------------------------------------------------ *)
Lemma find_pfile_del : forall h h' s,
  find_by (fun p => pf_handle p =? h') (del_by (fun p => pf_handle p =? h) (st_pool s))
  = if h' =? h then None else find_pfile h' s.
Proof.
  intros h h' s. unfold find_pfile, del_by. induction (st_pool s) as [|x tl IH]; simpl; [destruct (h' =? h); reflexivity|].
  destruct (pf_handle x =? h) eqn:E; simpl.
  - rewrite IH. destruct (h' =? h) eqn:E2; [reflexivity|].
    apply N.eqb_eq in E. assert (pf_handle x =? h' = false) by (apply N.eqb_neq; apply N.eqb_neq in E2; congruence).
    rewrite H. reflexivity.
  - destruct (pf_handle x =? h') eqn:E3.
    + apply N.eqb_eq in E3. assert (h' =? h = false) by (apply N.eqb_neq; apply N.eqb_neq in E; congruence). rewrite H. reflexivity.
    + exact IH.
Qed.

Lemma use_of_pool_close : forall h s h', (1 <= use_of s h)%Z ->
  use_of (pool_close h s) h' = (use_of s h' - (if N.eqb h' h then 1 else 0))%Z.
Proof.
  intros h s h' Hpos. unfold pool_close, use_of in *.
  destruct (find_pfile h s) as [p|] eqn:Ef; [|lia].
  destruct (pf_use p <=? 1) eqn:Eu.
  - unfold find_pfile at 1. simpl. rewrite find_pfile_del. destruct (h' =? h) eqn:E.
    + apply N.eqb_eq in E. subst h'. rewrite Ef. apply N.leb_le in Eu. lia.
    + lia.
  - destruct (h' =? h) eqn:E.
    + apply N.eqb_eq in E. subst h'. unfold find_pfile, upd_pfile. simpl.
      rewrite (find_by_upd_by (fun p => pf_handle p =? h) _ (st_pool s)) by (intros x Hx; exact Hx).
      unfold find_pfile in Ef. rewrite Ef. simpl. apply N.leb_gt in Eu. lia.
    + unfold find_pfile, upd_pfile. simpl.
      rewrite (find_by_upd_by_other (fun p => pf_handle p =? h) (fun p => pf_handle p =? h')); [lia|reflexivity|].
      intros x Hx. apply N.eqb_eq in Hx. rewrite Hx. apply N.eqb_neq. apply N.eqb_neq in E. congruence.
Qed.

Lemma use_of_pool_open : forall h s h',
  use_of (pool_open h s) h' = (use_of s h' + (if N.eqb h' h then 1 else 0))%Z.
Proof.
  intros h s h'. unfold pool_open, use_of.
  destruct (find_pfile h s) as [p|] eqn:Ef.
  - destruct (h' =? h) eqn:E.
    + apply N.eqb_eq in E. subst h'. unfold find_pfile, upd_pfile. simpl.
      rewrite (find_by_upd_by (fun p => pf_handle p =? h) _ (st_pool s)) by (intros x Hx; exact Hx).
      unfold find_pfile in Ef. rewrite Ef. simpl. lia.
    + unfold find_pfile, upd_pfile. simpl.
      rewrite (find_by_upd_by_other (fun p => pf_handle p =? h) (fun p => pf_handle p =? h')); [lia|reflexivity|].
      intros x Hx. apply N.eqb_eq in Hx. rewrite Hx. apply N.eqb_neq. apply N.eqb_neq in E. congruence.
  - unfold find_pfile in *. simpl.
    assert (E : forall l, find_by (fun p => pf_handle p =? h') (l ++ [mkPfile h 1 []])
                          = match find_by (fun p => pf_handle p =? h') l with Some p => Some p | None => if h =? h' then Some (mkPfile h 1 []) else None end).
    { induction l as [|x tl IH]; simpl; [reflexivity|]. destruct (pf_handle x =? h'); [reflexivity|exact IH]. }
    rewrite E. destruct (h' =? h) eqn:E2.
    + apply N.eqb_eq in E2. subst h'. rewrite Ef, N.eqb_refl. simpl. lia.
    + destruct (find_by (fun p => pf_handle p =? h') (st_pool s)); [lia|]. rewrite N.eqb_sym, E2. lia.
Qed.

Lemma oofs_pool_close : forall h s, st_oofs (pool_close h s) = st_oofs s.
Proof.
  intros. unfold pool_close. destruct (find_pfile h s); [|reflexivity]. destruct (pf_use p <=? 1); reflexivity.
Qed.
Lemma oofs_pool_open : forall h s, st_oofs (pool_open h s) = st_oofs s.
Proof. intros. unfold pool_open. destruct (find_pfile h s); reflexivity. Qed.

(* removeFinalize keeps the pool exact *)
Lemma presX_oofs_finalize : forall other, presX (oofs_finalize other).
Proof.
  intros other s [HP HL]. unfold oofs_finalize. destruct (find_oofs other s) as [o|] eqn:Ef; [|split; assumption].
  destruct (of_live o) eqn:El; [|split; assumption].
  eapply xeq_X; [apply xeq_gc_oofs|].
  set (f := fun o0 : oofs => mkOofs (of_other o0) (of_seq o0) (of_client o0) (of_owner o0) (of_handle o0) (of_sa o0) (of_rd o0) (of_wr o0) false).
  set (s1 := upd_oofs other f s).
  assert (L1 : forall h, live_on s1 h = (live_on s h - (if N.eqb (of_handle o) h then 1 else 0))%Z).
  { intros h. unfold live_on, s1, upd_oofs. simpl. unfold find_oofs in Ef.
    rewrite (cntb_upd_by_first _ _ f (st_oofs s) o Ef). simpl. rewrite El. simpl. destruct (of_handle o =? h); lia. }
  assert (Hpos : (1 <= use_of s1 (of_handle o))%Z).
  { change (use_of s1 (of_handle o)) with (use_of s (of_handle o)). rewrite (HP (of_handle o)).
    unfold live_on. apply find_by_In in Ef. destruct Ef as [Hin _]. apply (cntb_pos_In _ _ o Hin). rewrite El, N.eqb_refl. reflexivity. }
  split.
  - intros h. rewrite (use_of_pool_close (of_handle o) s1 h Hpos).
    change (use_of s1 h) with (use_of s h).
    assert (E : live_on (pool_close (of_handle o) s1) h = live_on s1 h) by (unfold live_on; rewrite oofs_pool_close; reflexivity).
    rewrite E, L1, (HP h), (N.eqb_sym h (of_handle o)). lia.
  - unfold LosOk, loskeys in *.
    assert (E : st_los (pool_close (of_handle o) s1) = st_los s /\ st_next_id (pool_close (of_handle o) s1) = st_next_id s).
    { unfold pool_close. destruct (find_pfile (of_handle o) s1); [|split; reflexivity]. destruct (pf_use p <=? 1); split; reflexivity. }
    destruct E as [E1 E2]. rewrite E1, E2. exact HL.
Qed.

(* ---- composing --------------------------------------------------------------------------------------------- *)
Definition gX (s0 s : state) : Prop := X s0 -> X s.
Lemma gX_refl : forall s, gX s s. Proof. intros s H. exact H. Qed.
Lemma gX_xeq : forall s0 s1 s2, gX s0 s1 -> xeq s1 s2 -> gX s0 s2.
Proof. intros s0 s1 s2 G E H. eapply xeq_X; [exact E|apply G; exact H]. Qed.
Lemma gX_pres : forall f s0 s1, presX f -> gX s0 s1 -> gX s0 (f s1).
Proof. intros f s0 s1 Hf G H. apply Hf. apply G. exact H. Qed.

Lemma presX_fold_lofs_remove : forall l, presX (fun s => fold_left (fun s o => lofs_remove o s) l s).
Proof. intros l. apply presX_fold. intros a. apply presX_lofs_remove. Qed.

Ltac x_tac :=
  repeat first
    [ apply gX_refl
    | assumption
    | match goal with
      | |- gX _ (panic _) => eapply gX_xeq; [|apply xeq_panic]
      | |- gX _ (w_now _ _) => eapply gX_xeq; [|apply xeq_w_now]
      | |- gX _ (w_rng _ _) => eapply gX_xeq; [|apply xeq_w_rng]
      | |- gX _ (w_confs _ _) => eapply gX_xeq; [|apply xeq_w_confs]
      | |- gX _ (w_confirmed _ _) => eapply gX_xeq; [|apply xeq_w_confirmed]
      | |- gX _ (w_idle _ _) => eapply gX_xeq; [|apply xeq_w_idle]
      | |- gX _ (w_oos _ _) => eapply gX_xeq; [|apply xeq_w_oos]
      | |- gX _ (w_unused _ _) => eapply gX_xeq; [|apply xeq_w_unused]
      | |- gX _ (w_lofs _ _) => eapply gX_xeq; [|apply xeq_w_lofs]
      | |- gX _ (w_pending _ _) => eapply gX_xeq; [|apply xeq_w_pending]
      | |- gX _ (w_ll _ _) => eapply gX_xeq; [|apply xeq_w_ll]
      | |- gX _ (upd_conf _ _ _) => eapply gX_xeq; [|apply xeq_upd_conf]
      | |- gX _ (upd_oos _ _ _) => eapply gX_xeq; [|apply xeq_upd_oos]
      | |- gX _ (upd_lofs _ _ _) => eapply gX_xeq; [|apply xeq_upd_lofs]
      | |- gX _ (upd_los _ _ _) => eapply gX_xeq; [|apply xeq_upd_los; same3]
      | |- gX _ (upd_pfile _ _ _) => eapply gX_xeq; [|apply xeq_upd_pfile; same3]
      | |- gX _ (set_oos_last _ _ _) => eapply gX_xeq; [|apply xeq_upd_oos]
      | |- gX _ (set_oos_intx _ _ _) => eapply gX_xeq; [|apply xeq_upd_oos]
      | |- gX _ (hold _ _) => eapply gX_xeq; [|apply xeq_hold]
      | |- gX _ (release _ _) => eapply gX_xeq; [|apply xeq_release]
      | |- gX _ (emit_close _ _ _) => eapply gX_xeq; [|apply xeq_emit_close]
      | |- gX _ (gc_oofs _ _) => eapply gX_xeq; [|apply xeq_gc_oofs]
      | |- gX _ (oofs_release _ _ _) => eapply gX_xeq; [|apply xeq_oofs_release]
      | |- gX _ (oofs_clone _ _ _) => eapply gX_xeq; [|apply xeq_oofs_clone]
      | |- gX _ (oofs_set_sa _ _ _) => eapply gX_xeq; [|apply xeq_oofs_set_sa]
      | |- gX _ (oofs_bump_seq _ _) => eapply gX_xeq; [|apply xeq_oofs_bump_seq]
      | |- gX _ (oofs_upgrade _ _ _) => eapply gX_xeq; [|apply xeq_oofs_upgrade]
      | |- gX _ (lofs_remove _ _) => apply (gX_pres (lofs_remove _)); [apply presX_lofs_remove|]
      | |- gX _ (oofs_finalize _ _) => apply (gX_pres (oofs_finalize _)); [apply presX_oofs_finalize|]
      | |- gX _ (fold_left (fun s o => lofs_remove o s) ?l _) =>
          apply (gX_pres (fun s => fold_left (fun s o => lofs_remove o s) l s)); [apply presX_fold_lofs_remove|]
      | |- gX _ (if ?c then _ else _) => destruct c
      | |- gX _ (match ?x with _ => _ end) => destruct x
      end ].

Lemma presX_of_gX : forall f, (forall s, gX s (f s)) -> presX f.
Proof. intros f H s Hx. apply (H s). exact Hx. Qed.

Lemma presX_oofs_remove_start : forall other, presX (oofs_remove_start other).
Proof. intros other. apply presX_of_gX. intros s. unfold oofs_remove_start. x_tac. Qed.

Lemma presX_forget_last : forall ck, presX (forget_last ck).
Proof. intros ck. apply presX_of_gX. intros s. unfold forget_last. x_tac. Qed.

Lemma presX_oos_reinit : forall ck, presX (oos_reinit ck).
Proof.
  intros ck s H. unfold oos_reinit.
  apply (presX_fold (fun s o => oofs_finalize o (oofs_remove_start o s))).
  - intros a. apply (presX_comp (oofs_remove_start a) (oofs_finalize a)); [apply presX_oofs_remove_start|apply presX_oofs_finalize].
  - apply presX_forget_last. destruct (find_oos ck s); [destruct (oo_intx o)|]; exact H.
Qed.

Lemma presX_oos_remove : forall ck, presX (oos_remove ck).
Proof.
  intros ck s H. unfold oos_remove. eapply xeq_X; [apply xeq_w_oos|]. eapply xeq_X; [apply xeq_w_unused|].
  apply presX_oos_reinit. exact H.
Qed.

Lemma presX_conf_remove : forall short, presX (conf_remove short).
Proof.
  intros short s H. unfold conf_remove. destruct (find_conf short s); [|exact H].
  eapply xeq_X; [apply xeq_w_idle|]. eapply xeq_X; [apply xeq_w_confs|].
  set (s0 := if cf_hold c =? 0 then s else panic s).
  assert (H0 : X s0) by (unfold s0; destruct (cf_hold c =? 0); [exact H|eapply xeq_X; [apply xeq_panic|exact H]]).
  destruct (confirmed_of (cf_long c) s0); [|exact H0]. destruct (n =? short); [|exact H0].
  eapply xeq_X; [apply xeq_w_confirmed|].
  match goal with |- X (if _ then panic ?a else ?a) => assert (Ha : X a) end.
  { apply (presX_fold (fun s ck => oos_remove ck s)); [intros a; apply presX_oos_remove|exact H0]. }
  destruct (existsb _ _); [eapply xeq_X; [apply xeq_panic|exact Ha]|exact Ha].
Qed.

Lemma presX_expire_confs : forall fuel minseen, presX (expire_confs fuel minseen).
Proof.
  induction fuel as [|fuel IH]; intros minseen s H; simpl; [exact H|].
  destruct (st_idle s); [exact H|]. destruct (find_conf n s); [|eapply xeq_X; [apply xeq_panic|exact H]].
  destruct (cf_lastseen c <? minseen)%Z; [|exact H]. apply IH. apply presX_conf_remove. exact H.
Qed.
Lemma presX_expire_oos : forall fuel minseen, presX (expire_oos fuel minseen).
Proof.
  induction fuel as [|fuel IH]; intros minseen s H; simpl; [exact H|].
  destruct (st_unused s); [exact H|]. destruct (find_oos p s); [|eapply xeq_X; [apply xeq_panic|exact H]].
  destruct (oo_lastused o <? minseen)%Z; [|exact H]. apply IH. apply presX_oos_remove. exact H.
Qed.
Lemma presX_enter : forall t, presX (enter t).
Proof.
  intros t s H. unfold enter. apply presX_expire_oos. apply presX_expire_confs. eapply xeq_X; [apply xeq_w_now|exact H].
Qed.

(* ---- transactions and operations ------------------------------------------------------------------------------ *)
Lemma xeq_oos_complete_tx : forall ck seq c s, xeq s (oos_complete_tx ck seq c s).
Proof.
  intros. unfold oos_complete_tx. eapply xeq_trans; [|apply xeq_release].
  set (s1 := set_oos_intx ck false s). assert (V1 : xeq s s1) by apply xeq_upd_oos.
  set (s2 := if should_complete (status_of (ca_res c)) then _ else s1).
  assert (V2 : xeq s1 s2) by (unfold s2; destruct (should_complete _); [apply xeq_upd_oos|apply xeq_refl]).
  eapply xeq_trans; [exact V1|]. eapply xeq_trans; [exact V2|].
  destruct (is_unused ck s2); [|apply xeq_refl]. eapply xeq_trans; [apply xeq_upd_oos|apply xeq_w_unused].
Qed.
Lemma xeq_los_start_tx : forall lk seq initial s, xeq s (fst (los_start_tx lk seq initial s)).
Proof.
  intros. unfold los_start_tx. destruct (find_los lk s); [|apply xeq_panic].
  destruct (match lo_last l with Some c => if seq =? lo_lastseq l then Some c else None | None => None end); [apply xeq_refl|].
  destruct (negb initial && negb (seq =? next_seq (lo_lastseq l))); [apply xeq_refl|]. cbn [fst].
  eapply xeq_trans; [|apply xeq_hold]. apply xeq_upd_los; same3.
Qed.
Lemma xeq_los_complete_tx : forall lk seq c s, xeq s (los_complete_tx lk seq c s).
Proof.
  intros. unfold los_complete_tx. eapply xeq_trans; [|apply xeq_release].
  destruct (should_complete _); [apply xeq_upd_los; same3|apply xeq_refl].
Qed.

Lemma gX_oos_start_tx : forall ck seq pol s0 s, gX s0 s -> gX s0 (fst (oos_start_tx ck seq pol s)).
Proof.
  intros ck seq pol s0 s G. unfold oos_start_tx. destruct (find_oos ck s); [|simpl; x_tac].
  set (sa := if oo_intx o then panic s else s).
  assert (Ga : gX s0 sa) by (unfold sa; x_tac).
  destruct (match oo_last o with Some c => if seq =? oo_lastseq o then Some c else None | None => None end); [exact Ga|].
  assert (Hmid : forall s1 (fail : bool), gX s0 s1 ->
            gX s0 (fst (if fail then (s1, TxFail ERR_BAD_SEQID)
                     else (hold (fst ck) (w_unused (set_oos_intx ck true (forget_last ck s1))
                                                   (del_by (pair_eqb ck) (st_unused (set_oos_intx ck true (forget_last ck s1))))), TxStarted)))).
  { intros s1 fail G1. destruct fail; simpl; [exact G1|].
    eapply gX_xeq; [|apply xeq_hold]. eapply gX_xeq; [|apply xeq_w_unused]. eapply gX_xeq; [|apply xeq_upd_oos].
    apply (gX_pres (forget_last ck)); [apply presX_forget_last|exact G1]. }
  destruct (oo_confirmed o); [apply Hmid; exact Ga|].
  destruct pol; [apply Hmid; exact Ga|apply (Hmid sa true); exact Ga|].
  apply (Hmid (oos_reinit ck sa) false). apply (gX_pres (oos_reinit ck)); [apply presX_oos_reinit|exact Ga].
Qed.

Lemma gX_tx_lock_common : forall lfother ltype off len s0 s, gX s0 s -> gX s0 (fst (tx_lock_common lfother ltype off len s)).
Proof.
  intros lfother ltype off len s0 s G. unfold tx_lock_common.
  destruct (find_lofs lfother s) as [lf|]; simpl; [|x_tac].
  destruct (find_oofs (lf_oofs lf) s); simpl; [|x_tac]. destruct (find_los _ s); simpl; [|x_tac].
  destruct (find_pfile (of_handle o) s); simpl; [|x_tac].
  destruct (LS.offset_length_to_start_end off len) as [[st en]|]; simpl; [|exact G].
  destruct (lock_type ltype); simpl; [|exact G].
  destruct (LS.test _ _); simpl; [exact G|]. x_tac.
Qed.
Lemma gX_tx_locku : forall off len c sq other s0 s, gX s0 s -> gX s0 (fst (tx_locku off len c sq other s)).
Proof.
  intros off len c sq other s0 s G. unfold tx_locku.
  destruct (get_lofs sq other c s) as [lf|]; simpl; [|exact G].
  destruct (find_oofs (lf_oofs lf) s); simpl; [|x_tac]. destruct (find_los _ s); simpl; [|x_tac].
  destruct (find_pfile (of_handle o) s); simpl; [|x_tac].
  destruct (LS.offset_length_to_start_end off len) as [[st en]|]; simpl; [|exact G]. x_tac.
Qed.

(* a new lock-owner object: fresh identity, key not present *)
Lemma LosOk_add : forall s cl key,
  find_los (cl, key) s = None -> LosOk s ->
  LosOk (w_next_id (w_los s (st_los s ++ [mkLos cl key (st_next_id s) 0 None])) (st_next_id s + 1)).
Proof.
  intros s cl key Hn (L1&L2&L3). unfold LosOk, loskeys in *. simpl. rewrite !map_app, !map_map in *. simpl.
  split; [|split].
  - apply NoDup_app_singleton; [exact L1|]. intro Hin. apply in_map_iff in Hin. destruct Hin as [l [E Hl]].
    pose proof (find_by_None _ _ Hn l Hl) as Hf. unfold los_is, pair_eqb in Hf. simpl in *. inversion E. subst.
    rewrite !N.eqb_refl in Hf. discriminate.
  - apply NoDup_app_singleton; [exact L2|]. intro Hin. apply in_map_iff in Hin. destruct Hin as [l [E Hl]].
    assert (Hk : In (lo_client l, lo_key l, lo_id l) (map (fun l => (lo_client l, lo_key l, lo_id l)) (st_los s))) by (apply in_map_iff; exists l; tauto).
    specialize (L3 _ Hk). simpl in *. lia.
  - intros k Hk. apply in_app_or in Hk. destruct Hk as [Hk | [<- | []]]; [specialize (L3 k Hk); lia|simpl; lia].
Qed.

Lemma gX_tx_lock_initial : forall ltype off len osid lseq lclient lowner c s0 s,
  gX s0 s -> gX s0 (fst (fst (tx_lock_initial ltype off len osid lseq lclient lowner c s))).
Proof.
  intros ltype off len osid lseq lclient lowner c s0 s G. unfold tx_lock_initial.
  destruct (internalize_regular osid); simpl; try exact G.
  destruct (get_oofs seq other false c s) as [o|]; simpl; [|exact G].
  destruct (negb (lclient =? of_client o)); simpl; [exact G|].
  set (lk := (of_client o, lowner)).
  set (pre := match find_los lk s with
              | None => (w_next_id (w_los s (st_los s ++ [mkLos (of_client o) lowner (st_next_id s) 0 None])) (st_next_id s + 1), true, false)
              | Some _ => (s, false, existsb (fun l => (lf_oofs l =? other) && lofs_of_los lk l) (st_lofs s))
              end).
  assert (Gpre : gX s0 (fst (fst pre))).
  { unfold pre. destruct (find_los lk s) eqn:Ef; simpl; [exact G|].
    intros H0. destruct (G H0) as [HP HL]. split; [exact HP|]. apply LosOk_add; assumption. }
  destruct pre as [[sa initial] dup]. simpl in Gpre.
  destruct dup; simpl; [exact Gpre|].
  pose proof (xeq_los_start_tx lk lseq initial sa) as Vb.
  destruct (los_start_tx lk lseq initial sa) as [sb r]. simpl in Vb.
  assert (Gb : gX s0 sb) by (eapply gX_xeq; eassumption).
  destruct r; simpl; [exact Gb|destruct initial; x_tac|].
  unfold draw. simpl.
  match goal with |- context [tx_lock_common ?a ?b ?c ?d ?e] =>
    assert (Ge : gX s0 (fst (tx_lock_common a b c d e))) by (apply gX_tx_lock_common; x_tac);
    destruct (tx_lock_common a b c d e) as [se res] end.
  simpl in *.
  assert (Gf : gX s0 (los_complete_tx lk lseq (mkCached KLock res None) se)) by (eapply gX_xeq; [exact Ge|apply xeq_los_complete_tx]).
  destruct (status_of res =? NFS4_OK); simpl; [exact Gf|]. x_tac.
Qed.

Lemma gX_owner_op : forall t ef k sid seq pol body s,
  (forall s1, gX s s1 -> gX s (fst (fst (body s1)))) -> gX s (fst (owner_op t ef k sid seq pol body s)).
Proof.
  intros t ef k sid seq pol body s Hb. unfold owner_op.
  assert (G0 : gX s (if ef then enter t s else s)) by (destruct ef; [apply (gX_pres (enter t)); [apply presX_enter|apply gX_refl]|apply gX_refl]).
  destruct (internalize_regular sid); simpl; try exact G0.
  assert (G1 : gX s (if ef then (if ef then enter t s else s) else enter t (if ef then enter t s else s))).
  { destruct ef; [exact G0|]. apply (gX_pres (enter t)); [apply presX_enter|apply gX_refl]. }
  set (s1 := if ef then (if ef then enter t s else s) else enter t (if ef then enter t s else s)) in *.
  destruct (find_live_oofs other s1) as [o|]; simpl; [|exact G1].
  destruct (match find_oos (of_client o, of_owner o) s1 with Some oo => oo_intx oo | None => false end); simpl; [exact G1|].
  pose proof (gX_oos_start_tx (of_client o, of_owner o) seq pol s s1 G1) as G2.
  destruct (oos_start_tx (of_client o, of_owner o) seq pol s1) as [s2 r]. simpl in G2.
  destruct r; simpl; try exact G2.
  specialize (Hb s2 G2). destruct (body s2) as [[s3 res] closed]. simpl in *.
  eapply gX_xeq; [exact Hb|apply xeq_oos_complete_tx].
Qed.

Lemma gX_lock_owner_op : forall t k lsid seq body s,
  (forall sq other s1, gX s s1 -> gX s (fst (body sq other s1))) -> gX s (fst (lock_owner_op t k lsid seq body s)).
Proof.
  intros t k lsid seq body s Hb. unfold lock_owner_op.
  assert (G0 : gX s (enter t s)) by (apply (gX_pres (enter t)); [apply presX_enter|apply gX_refl]).
  destruct (internalize_regular lsid); simpl; try exact G0.
  destruct (find_lofs other (enter t s)) as [lf|]; simpl; [|exact G0].
  pose proof (xeq_los_start_tx (lf_client lf, lf_lokey lf) seq false (enter t s)) as V.
  destruct (los_start_tx (lf_client lf, lf_lokey lf) seq false (enter t s)) as [s1 r]. simpl in V.
  assert (G1 : gX s s1) by (eapply gX_xeq; eassumption).
  destruct r; simpl; try exact G1.
  specialize (Hb seq0 other s1 G1). destruct (body seq0 other s1) as [s2 res]. simpl in *.
  eapply gX_xeq; [exact Hb|apply xeq_los_complete_tx].
Qed.

Lemma gX_tx_open_confirm : forall sid c s0 s, gX s0 s -> gX s0 (fst (fst (tx_open_confirm sid c s))).
Proof.
  intros sid c s0 s G. unfold tx_open_confirm. destruct (internalize_regular sid); simpl; try exact G.
  destruct (get_oofs seq other true c s); simpl; [|exact G]. x_tac.
Qed.
Lemma gX_tx_close : forall sid c s0 s, gX s0 s -> gX s0 (fst (fst (tx_close sid c s))).
Proof.
  intros sid c s0 s G. unfold tx_close. destruct (internalize_regular sid); simpl; try exact G.
  destruct (get_oofs seq other false c s); simpl; [|exact G].
  eapply gX_xeq; [|apply xeq_oofs_bump_seq]. apply (gX_pres (oofs_remove_start other)); [apply presX_oofs_remove_start|exact G].
Qed.
Lemma gX_tx_open_downgrade : forall sid access deny c s0 s, gX s0 s -> gX s0 (fst (fst (tx_open_downgrade sid access deny c s))).
Proof.
  intros sid access deny c s0 s G. unfold tx_open_downgrade. destruct (internalize_regular sid); simpl; try exact G.
  destruct (get_oofs seq other false c s); simpl; [|exact G].
  destruct (access_to_mask access); simpl; [|exact G].
  destruct (negb (mask_subset m (of_sa o)) || negb (deny =? 0)); simpl; [exact G|]. x_tac.
Qed.

Lemma gX_enter : forall t s0 s, gX s0 s -> gX s0 (enter t s).
Proof. intros. apply (gX_pres (enter t)); [apply presX_enter|assumption]. Qed.

Lemma gX_do_setclientid : forall t long cverf s, gX s (fst (do_setclientid t long cverf s)).
Proof.
  intros. unfold do_setclientid. destruct (find_by _ (st_confs (enter t s))); simpl; [apply gX_enter; apply gX_refl|].
  unfold draw. simpl. x_tac. apply gX_enter. apply gX_refl.
Qed.
Lemma gX_do_setclientid_confirm : forall t short sverf s, gX s (fst (do_setclientid_confirm t short sverf s)).
Proof.
  intros t short sverf s. unfold do_setclientid_confirm.
  assert (G0 : gX s (enter t s)) by (apply gX_enter; apply gX_refl).
  destruct (find_by _ (st_confs (enter t s))); simpl; [|exact G0].
  destruct (confirmed_of (cf_long c) (enter t s)).
  - destruct (n =? short); simpl; [exact G0|].
    destruct (find_conf n (hold short (enter t s))); simpl; [|x_tac].
    destruct (0 <? cf_hold c0); simpl; [x_tac|].
    eapply gX_xeq; [|apply xeq_release]. eapply gX_xeq; [|apply xeq_w_confirmed].
    match goal with |- gX _ (match _ with Some _ => panic ?a | None => ?a end) => assert (Ga : gX s a) end.
    { apply (gX_pres (conf_remove n)); [apply presX_conf_remove|]. x_tac. }
    destruct (confirmed_of _ _); [eapply gX_xeq; [exact Ga|apply xeq_panic]|exact Ga].
  - simpl. x_tac.
Qed.
Lemma gX_do_renew : forall t short s, gX s (fst (do_renew t short s)).
Proof. intros. unfold do_renew. destruct (confirmed_client short (enter t s)); simpl; x_tac; apply gX_enter; apply gX_refl. Qed.
Lemma gX_do_lockt : forall t c ltype off len client owner s, gX s (fst (do_lockt t c ltype off len client owner s)).
Proof.
  intros. unfold do_lockt. destruct c; simpl; try apply gX_refl.
  destruct (confirmed_client client (enter t s)); simpl; x_tac; apply gX_enter; apply gX_refl.
Qed.
Lemma gX_do_release_lockowner : forall t client owner s, gX s (fst (do_release_lockowner t client owner s)).
Proof.
  intros. unfold do_release_lockowner.
  assert (G0 : gX s (enter t s)) by (apply gX_enter; apply gX_refl).
  destruct (confirmed_client client (enter t s)); simpl; [|exact G0].
  destruct (find_los (client, owner) (hold client (enter t s))); simpl; [|x_tac].
  destruct (existsb _ _); simpl; [x_tac|].
  eapply gX_xeq; [|apply xeq_release].
  match goal with |- gX _ (match find_los _ ?x with _ => _ end) => assert (G : gX s x) end.
  { x_tac. }
  destruct (find_los _ _); [eapply gX_xeq; [exact G|apply xeq_panic]|exact G].
Qed.

Lemma gX_do_open_body : forall g c a s0 s, gX s0 s -> gX s0 (fst (do_open_body g c a s)).
Proof.
  intros g c a s0 s G. unfold do_open_body.
  destruct (negb (confirmed_client (oa_client a) s)); [exact G|]. cbv zeta.
  set (ck := (oa_client a, oa_owner a)).
  set (s1 := match find_oos ck s with Some _ => s | None => w_oos s (st_oos s ++ [mkOos (fst ck) (snd ck) false 0 None false 0]) end).
  assert (G1 : gX s0 s1) by (unfold s1; x_tac).
  destruct (find_oos ck s1) as [o|]; [|x_tac].
  destruct (oo_intx o); [exact G1|].
  pose proof (gX_oos_start_tx ck (oa_seq a) PolReinit s0 s1 G1) as G2.
  destruct (oos_start_tx ck (oa_seq a) PolReinit s1) as [s2 r]. cbn [fst] in G2.
  destruct r; try exact G2.
  destruct (tx_open_start a ck c s2); cbn [fst]; [eapply gX_xeq; [exact G2|apply xeq_oos_complete_tx]|]. x_tac.
Qed.
Lemma gX_do_open : forall g t c a s, gX s (fst (do_open g t c a s)).
Proof.
  intros g t c a s. unfold do_open.
  pose proof (gX_do_open_body g c a s (w_ll (enter t s) [])) as Gb.
  destruct (do_open_body g c a (w_ll (enter t s) [])) as [s2 rp]. cbn [fst] in *.
  eapply gX_xeq; [|apply xeq_w_ll]. apply Gb. eapply gX_xeq; [|apply xeq_w_ll]. apply gX_enter. apply gX_refl.
Qed.

(* a new open-owner file: pool entry created or its use count incremented *)
Lemma PoolOk_add : forall s h o,
  of_live o = true -> of_handle o = h -> PoolOk s ->
  PoolOk (w_oofs (pool_open h s) (st_oofs (pool_open h s) ++ [o])).
Proof.
  intros s h o Hl Hh HP h'. unfold use_of, live_on. simpl.
  change (match find_pfile h' (w_oofs (pool_open h s) (st_oofs (pool_open h s) ++ [o])) with Some p => Z.of_N (pf_use p) | None => 0%Z end)
    with (use_of (pool_open h s) h').
  rewrite use_of_pool_open, oofs_pool_open, cntb_app, cntb_cons, cntb_nil, Hl, Hh. simpl.
  specialize (HP h'). unfold live_on in HP. rewrite HP. rewrite (N.eqb_sym h h'). destruct (h' =? h); lia.
Qed.

Lemma PoolOk_add2 : forall s s' h o,
  of_live o = true -> of_handle o = h ->
  (forall h', use_of s' h' = use_of (pool_open h s) h') ->
  st_oofs s' = st_oofs (pool_open h s) ++ [o] -> PoolOk s -> PoolOk s'.
Proof.
  intros s s' h o Hl Hh Hu Ho HP h'. rewrite Hu. unfold live_on. rewrite Ho.
  rewrite use_of_pool_open, oofs_pool_open, cntb_app, cntb_cons, cntb_nil, Hl, Hh. simpl.
  specialize (HP h'). unfold live_on in HP. rewrite HP. rewrite (N.eqb_sym h h'). destruct (h' =? h); lia.
Qed.

Lemma los_pool_open : forall h s, st_los (pool_open h s) = st_los s /\ st_next_id (pool_open h s) = st_next_id s.
Proof. intros. unfold pool_open. destruct (find_pfile h s); split; reflexivity. Qed.

Lemma gX_do_open_ret : forall g t res s, gX s (fst (do_open_ret g t res s)).
Proof.
  intros g t res s. unfold do_open_ret.
  destruct (find_by (fun p => fst p =? g) (st_pending s)) as [[g' p]|]; [|apply gX_refl].
  destruct p as [cl key seq acc prev ll|]; [|apply gX_refl]. cbv zeta.
  match goal with |- context [enter t ?x] => assert (G2 : gX s (enter t x)) by (apply gX_enter; x_tac) end.
  match goal with |- context [enter t ?x] => set (s2 := enter t x) in * end.
  destruct res as [st|h]; cbn [fst]; [eapply gX_xeq; [exact G2|apply xeq_oos_complete_tx]|].
  destruct prev as [other|]; cbn [fst].
  - eapply gX_xeq; [|apply xeq_oos_complete_tx]. x_tac.
  - destruct (find_by _ (st_oofs (w_ll s2 _))) as [o|]; cbn [fst].
    + eapply gX_xeq; [|apply xeq_oos_complete_tx]. x_tac.
    + unfold draw. cbn [fst snd]. eapply gX_xeq; [|apply xeq_oos_complete_tx].
      intros H0. destruct (G2 H0) as [HP HL]. split.
      * eapply (PoolOk_add2 (w_ll s2 (mkCall h true acc :: st_ll s2)) _ h); [| | |reflexivity|exact HP]; reflexivity.
      * unfold LosOk, loskeys in *. simpl.
        destruct (los_pool_open h (w_ll s2 (mkCall h true acc :: st_ll s2))) as [E1 E2]. rewrite E1, E2. exact HL.
Qed.

Lemma gX_do_io : forall g t c k sid openerr ioerr s, gX s (fst (do_io g t c k sid openerr ioerr s)).
Proof.
  intros. unfold do_io. destruct (internalize sid); [|apply gX_refl|].
  - destruct k; destruct c; try apply gX_refl; (destruct (openerr =? NFS4_OK); [|apply gX_refl]); cbn [fst]; x_tac.
  - cbv zeta. assert (G1 : gX s (enter t s)) by (apply gX_enter; apply gX_refl).
    destruct (get_oofs seq other false c (enter t s)) as [o|st].
    + destruct (mask_subset (io_access k) (of_sa o)); [|exact G1]. cbn [fst]. x_tac.
    + destruct (st =? ERR_BAD_STATEID); [|exact G1].
      destruct (get_lofs seq other c (enter t s)); [|exact G1].
      destruct (mask_subset (io_access k) (lf_sa l)); [|exact G1]. cbn [fst]. x_tac.
Qed.

Lemma gX_do_io_ret : forall g t st s, gX s (fst (do_io_ret g t st s)).
Proof.
  intros. unfold do_io_ret. destruct (find_by (fun p => fst p =? g) (st_pending s)) as [[g' p]|]; [|apply gX_refl].
  destruct p; [apply gX_refl|]. cbv zeta. cbn [fst]. x_tac. apply gX_enter. apply gX_refl.
Qed.

Lemma gX_do_req : forall g t fh r s, gX s (fst (do_req g t fh r s)).
Proof.
  intros g t fh r s. unfold do_req. destruct (resolve_fh fh s) as [c|st]; [|apply gX_refl].
  destruct r.
  - apply gX_do_setclientid.
  - apply gX_do_setclientid_confirm.
  - apply gX_do_renew.
  - apply gX_do_open.
  - apply gX_owner_op. intros. apply gX_tx_open_confirm. assumption.
  - apply gX_owner_op. intros. apply gX_tx_open_downgrade. assumption.
  - apply gX_owner_op. intros. apply gX_tx_close. assumption.
  - apply gX_owner_op. intros. apply gX_tx_lock_initial. assumption.
  - apply gX_lock_owner_op. intros. unfold tx_lock_successive. destruct (get_lofs _ _ _ _); [apply gX_tx_lock_common|]; assumption.
  - apply gX_do_lockt.
  - apply gX_lock_owner_op. intros. apply gX_tx_locku. assumption.
  - apply gX_do_release_lockowner.
  - apply gX_do_io.
  - apply gX_refl.
Qed.

Lemma X_step : forall s e, X s -> X (fst (step s e)).
Proof.
  intros s e H. unfold step.
  set (r := match e with
            | EReq g t fh r0 => if existsb (fun p => fst p =? g) (st_pending s) then (s, RpOp (ResStatus ERR_RESOURCE)) else do_req g t fh r0 s
            | EOpenRet g t res => do_open_ret g t res s
            | EIoRet g t st => do_io_ret g t st s
            end).
  assert (G : gX s (fst r)).
  { unfold r. destruct e as [g t fh r0|g t res|g t st].
    - destruct (existsb _ _); [apply gX_refl|apply gX_do_req].
    - apply gX_do_open_ret.
    - apply gX_do_io_ret. }
  destruct r as [s1 rp]. cbn [fst] in *. eapply xeq_X; [apply xeq_w_ll|]. apply G. exact H.
Qed.

Lemma X_init : X init.
Proof.
  split.
  - intros h. reflexivity.
  - unfold LosOk, loskeys. simpl. repeat split; try constructor. intros k [].
Qed.

Theorem X_reachable : forall evs, X (state_after evs).
Proof.
  intros evs. unfold state_after.
  assert (H : forall s, X s -> X (fst (run s evs))).
  { induction evs as [|e tl IH]; intros s Hs; simpl; [exact Hs|].
    pose proof (X_step s e Hs) as H1. destruct (step s e) as [s1 o]. cbn [fst] in H1.
    specialize (IH s1 H1). destruct (run s1 tl) as [s2 os]. exact IH. }
  apply H. apply X_init.
Qed.

(* open_stays_resolvable: in every reachable state the pool holds an entry
   for the handle of every open-owner file in the tables (also after the file
   was unlinked: [linked] = false), so PUTFH of that handle succeeds *)
Theorem open_stays_resolvable : forall evs o,
  In o (st_oofs (state_after evs)) -> of_live o = true ->
  resolve_fh (FhFile (of_handle o) false) (state_after evs) = inl (CurLeaf (of_handle o)).
Proof.
  intros evs o Hin Hl. destruct (X_reachable evs) as [HP _]. specialize (HP (of_handle o)).
  assert (Hpos : (1 <= live_on (state_after evs) (of_handle o))%Z).
  { unfold live_on. apply (cntb_pos_In _ _ o Hin). rewrite Hl, N.eqb_refl. reflexivity. }
  unfold resolve_fh. simpl. unfold use_of in HP. destruct (find_pfile (of_handle o) (state_after evs)); [reflexivity|lia].
Qed.

(* the pool's use count of a handle = number of open-owner files in the tables on it *)
Theorem pool_use_count_exact : forall evs h, use_of (state_after evs) h = live_on (state_after evs) h.
Proof. intros evs h. destruct (X_reachable evs) as [HP _]. apply HP. Qed.

(* one_owner_one_object: at any time at most one lock-owner object per
   (client, owner), and different lock-owners have different identities in the
   lock tables *)
Theorem one_owner_one_object : forall evs a b,
  In a (st_los (state_after evs)) -> In b (st_los (state_after evs)) ->
  ((lo_client a, lo_key a) = (lo_client b, lo_key b) -> a = b) /\ (lo_id a = lo_id b -> a = b).
Proof.
  intros evs a b Ha Hb. destruct (X_reachable evs) as [_ (L1&L2&_)]. unfold loskeys in *. rewrite map_map in *. simpl in *.
  assert (Hgen : forall {K} (key : los -> K) (l : list los) x y, NoDup (map key l) -> In x l -> In y l -> key x = key y -> x = y).
  { intros K key l. induction l as [|z tl IH]; intros x y Hnd Hx Hy Hk; [contradiction|].
    inversion Hnd as [|? ? Hn Hd]; subst.
    destruct Hx as [-> | Hx]; destruct Hy as [-> | Hy]; auto.
    - exfalso. apply Hn. apply in_map_iff. exists y. split; [symmetry|]; assumption.
    - exfalso. apply Hn. apply in_map_iff. exists x. split; assumption. }
  split; intros E.
  - apply (Hgen _ (fun l => (lo_client l, lo_key l)) _ a b L1 Ha Hb E).
  - apply (Hgen _ lo_id _ a b L2 Ha Hb E).
Qed.
