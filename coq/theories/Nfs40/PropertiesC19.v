(* C19 through the NFSv4.0 model - the property theorems, and nothing else. *)
From VF Require Import Nfs40.Model Nfs40.Proofs19 Nfs40.ProofsClose.
Open Scope N_scope.

(* replay_same_reply40 (OPEN_CONFIRM, OPEN_DOWNGRADE, CLOSE, LOCK with a new
   lock-owner): a request carrying the seqid of the owner's cached reply is
   answered from the cache; the state is exactly what enter() alone produces:
   nothing is executed and no leaf is called. *)
Theorem replay_same_reply40_open_owner : forall t ef k sid seq pol body s sq other o oo c,
  internalize_regular sid = IsReg sq other ->
  find_live_oofs other (enter t s) = Some o ->
  find_oos (of_client o, of_owner o) (enter t s) = Some oo ->
  oo_intx oo = false -> oo_last oo = Some c -> seq = oo_lastseq oo ->
  owner_op t ef k sid seq pol body s
  = (enter t s, RpOp (replay_reply k (match k with KLock => None | _ => Some sid end) c)).
Proof. exact owner_op_replay. Qed.
Print Assumptions replay_same_reply40_open_owner.

Theorem replay_same_reply40_open : forall g t c a s oo ca,
  confirmed_client (oa_client a) (enter t s) = true ->
  find_oos (oa_client a, oa_owner a) (enter t s) = Some oo ->
  oo_intx oo = false -> oo_last oo = Some ca -> oa_seq a = oo_lastseq oo ->
  do_open g t c a s = (enter t s, RpOp (replay_reply KOpen None ca)).
Proof. exact open_replay. Qed.
Print Assumptions replay_same_reply40_open.

Theorem replay_same_reply40_lock_owner : forall t k lsid seq body s sq other lf l c,
  internalize_regular lsid = IsReg sq other ->
  find_lofs other (enter t s) = Some lf ->
  find_los (lf_client lf, lf_lokey lf) (enter t s) = Some l ->
  lo_last l = Some c -> seq = lo_lastseq l ->
  lock_owner_op t k lsid seq body s = (enter t s, RpOp (replay_reply k (Some lsid) c)).
Proof. exact lock_owner_op_replay. Qed.
Print Assumptions replay_same_reply40_lock_owner.

(* the retransmission of the original (same operation, predecessor state ID)
   gets exactly the cached reply *)
Theorem replay_reply_is_cached : forall k sid c,
  same_kind k (ca_kind c) = true ->
  match sid, ca_res c with
  | Some sd, ResStateid cs co => is_next_sid cs co sd = true
  | _, _ => True
  end ->
  replay_reply k sid c = ca_res c.
Proof. exact replay_reply_same. Qed.
Print Assumptions replay_reply_is_cached.

(* misordered_no_effect: neither the cached nor the next seqid on a confirmed
   open-owner (or any seqid but the cached one on an unconfirmed owner, for the
   operations that may not use one): NFS4ERR_BAD_SEQID and no effect *)
Theorem misordered_no_effect_open_owner : forall t ef k sid seq pol body s sq other o oo,
  internalize_regular sid = IsReg sq other ->
  find_live_oofs other (enter t s) = Some o ->
  find_oos (of_client o, of_owner o) (enter t s) = Some oo ->
  oo_intx oo = false -> oo_confirmed oo = true ->
  replay_candidate oo seq = false -> seq <> next_seq (oo_lastseq oo) ->
  owner_op t ef k sid seq pol body s = (enter t s, RpOp (ResStatus ERR_BAD_SEQID)).
Proof. exact owner_op_misordered. Qed.
Print Assumptions misordered_no_effect_open_owner.

Theorem misordered_no_effect_unconfirmed : forall t ef k sid seq body s sq other o oo,
  internalize_regular sid = IsReg sq other ->
  find_live_oofs other (enter t s) = Some o ->
  find_oos (of_client o, of_owner o) (enter t s) = Some oo ->
  oo_intx oo = false -> oo_confirmed oo = false -> replay_candidate oo seq = false ->
  owner_op t ef k sid seq PolDeny body s = (enter t s, RpOp (ResStatus ERR_BAD_SEQID)).
Proof. exact owner_op_unconfirmed_deny. Qed.
Print Assumptions misordered_no_effect_unconfirmed.

Theorem misordered_no_effect_open : forall g t c a s oo,
  confirmed_client (oa_client a) (enter t s) = true ->
  find_oos (oa_client a, oa_owner a) (enter t s) = Some oo ->
  oo_intx oo = false -> oo_confirmed oo = true ->
  replay_candidate oo (oa_seq a) = false -> oa_seq a <> next_seq (oo_lastseq oo) ->
  do_open g t c a s = (enter t s, RpOp (ResStatus ERR_BAD_SEQID)).
Proof. exact open_misordered. Qed.
Print Assumptions misordered_no_effect_open.

Theorem misordered_no_effect_lock_owner : forall t k lsid seq body s sq other lf l,
  internalize_regular lsid = IsReg sq other ->
  find_lofs other (enter t s) = Some lf ->
  find_los (lf_client lf, lf_lokey lf) (enter t s) = Some l ->
  match lo_last l with Some _ => seq =? lo_lastseq l | None => false end = false ->
  seq <> next_seq (lo_lastseq l) ->
  lock_owner_op t k lsid seq body s = (enter t s, RpOp (ResStatus ERR_BAD_SEQID)).
Proof. exact lock_owner_op_misordered. Qed.
Print Assumptions misordered_no_effect_lock_owner.

(* a request on an owner whose transaction is in flight waits (no effect) *)
Theorem inflight_request_waits : forall t ef k sid seq pol body s sq other o oo,
  internalize_regular sid = IsReg sq other ->
  find_live_oofs other (enter t s) = Some o ->
  find_oos (of_client o, of_owner o) (enter t s) = Some oo -> oo_intx oo = true ->
  owner_op t ef k sid seq pol body s = (enter t s, RpBlocked).
Proof. exact owner_op_blocked. Qed.
Print Assumptions inflight_request_waits.

(* seqid_advances_iff_should_complete *)
Theorem seqid_advances_iff_should_complete : forall ck seq c s o,
  find_oos ck s = Some o ->
  exists o', find_oos ck (oos_complete_tx ck seq c s) = Some o' /\
    oo_intx o' = false /\
    (should_complete (status_of (ca_res c)) = true -> oo_lastseq o' = seq /\ oo_last o' = Some c) /\
    (should_complete (status_of (ca_res c)) = false -> oo_lastseq o' = oo_lastseq o /\ oo_last o' = oo_last o).
Proof. exact complete_tx_seqid. Qed.
Print Assumptions seqid_advances_iff_should_complete.

(* transactionShouldComplete is the list of RFC 7530 section 9.1.7 *)
Theorem should_complete_list : forall st,
  should_complete st = false <->
  In st [ERR_STALE_CLIENTID; ERR_STALE_STATEID; ERR_BAD_STATEID; ERR_BAD_SEQID;
         ERR_BADXDR; ERR_RESOURCE; ERR_NOFILEHANDLE; ERR_MOVED].
Proof. exact should_complete_list_lemma. Qed.
Print Assumptions should_complete_list.

(* false_retry_detected, the part that holds: the cached reply goes only to
   the same operation type with (where the reply carries one) the predecessor
   state ID; anything else is answered NFS4ERR_BAD_SEQID ... *)
Theorem false_retry_detected_partial : forall k sd c cs co,
  ca_res c = ResStateid cs co ->
  (same_kind k (ca_kind c) = false \/ is_next_sid cs co sd = false) ->
  replay_reply k (Some sd) c = ResStatus ERR_BAD_SEQID.
Proof. exact replay_reply_detects. Qed.
Print Assumptions false_retry_detected_partial.

(* ... but the full statement "a retransmission whose content differs from the
   original is never answered with another request's reply" is FALSE of the
   code (known findings of the C19:false-retry family): OPEN is matched on type and seqid
   only.  Witness, replayed on the implementation by corpus/C19/nfs40_false_retry.json. *)
Theorem false_retry_detected_refuted :
  let '(s, outs) := run init ev_setup in
  let '(_, o) := step s ev_false_retry in
  nth_error outs 3 = Some (mkOut (RpOp (ResOpen 1 1002 true)) [mkCall 1 true (mkMask true false)])
  /\ o = mkOut (RpOp (ResOpen 1 1002 true)) [].
Proof. exact false_retry_open_witness. Qed.
Print Assumptions false_retry_detected_refuted.

(* close_replay_resolvable: CLOSE keeps the closed open-owner file in
   openOwnerFilesByOther, with an empty share reservation and the successor
   state ID ([Uo]: open-owner file keys are unique, true of every reachable
   state by PropertiesC18.accounting_invariant) ... *)
Theorem close_keeps_stateid : forall sid c s s1 nsq other,
  Uo s -> tx_close sid c s = (s1, ResStateid nsq other, Some other) ->
  lsa s1 other = Some mask_none /\ nsq = next_seq (sid_seq sid) /\ sid_other sid = SoReg other.
Proof. exact tx_close_keeps_stateid. Qed.
Print Assumptions close_keeps_stateid.

(* ... so that the retransmitted CLOSE finds its owner and is answered with
   the cached reply, without any effect *)
Theorem close_replay_resolvable : forall t sid seq c s other o oo nsq,
  sid_other sid = SoReg other -> nsq = next_seq (sid_seq sid) ->
  find_live_oofs other (enter t s) = Some o ->
  find_oos (of_client o, of_owner o) (enter t s) = Some oo ->
  oo_intx oo = false -> oo_last oo = Some (mkCached KClose (ResStateid nsq other) (Some other)) -> seq = oo_lastseq oo ->
  do_req 0 t c (RClose sid seq) s = (enter t s, RpOp (ResStateid nsq other))
  \/ exists st, do_req 0 t c (RClose sid seq) s = (s, RpPutfhFail st).
Proof. exact ProofsClose.close_replay_resolvable. Qed.
Print Assumptions close_replay_resolvable.
