(* C18 stateid_scope and C19 close_replay_resolvable for the NFSv4.0 model:
   statements about one request in an arbitrary state. *)
From VF Require Import Nfs40.Model Nfs40.Proofs19 Nfs40.ProofsInv.
From Coq Require Import Lia.
Open Scope N_scope.

Lemma compare_state_seq_ok : forall a b, compare_state_seq a b =? NFS4_OK = true -> a = b.
Proof.
  intros a b H. unfold compare_state_seq in H. destruct (a =? b) eqn:E; [apply N.eqb_eq; exact E|].
  destruct ((0 <? (a + 4294967296 - b) mod 4294967296) && ((a + 4294967296 - b) mod 4294967296 <? 2147483648)); discriminate.
Qed.

(* stateid_scope, open state IDs: getOpenOwnerFileByStateID accepts a state ID
   only for the open-owner file it names, with the current file handle being
   that file's, the exact current seqid, a share reservation still in place
   and (unless the operation is OPEN_CONFIRM) a confirmed open-owner *)
Theorem open_stateid_scope : forall sq other allow c s o,
  get_oofs sq other allow c s = inl o ->
  find_live_oofs other s = Some o /\ c = CurLeaf (of_handle o) /\ sq = of_seq o /\ mask_empty (of_sa o) = false
  /\ (allow = false -> exists oo, find_oos (of_client o, of_owner o) s = Some oo /\ oo_confirmed oo = true).
Proof.
  intros sq other allow c s o H. unfold get_oofs in H.
  destruct (find_live_oofs other s) as [o'|] eqn:Ef; [|discriminate].
  destruct c as [| |h]; try discriminate.
  - destruct (mask_empty (of_sa o')); [discriminate|]. simpl in H. discriminate.
  - destruct (mask_empty (of_sa o')) eqn:Em; [discriminate|].
    destruct (h =? of_handle o') eqn:Eh; simpl in H; [|discriminate]. apply N.eqb_eq in Eh.
    destruct (negb (match find_oos (of_client o', of_owner o') s with Some oo => oo_confirmed oo | None => false end) && negb allow) eqn:Ec; [discriminate|].
    destruct (compare_state_seq sq (of_seq o') =? NFS4_OK) eqn:Es; [|discriminate].
    inversion H; subst o'. apply compare_state_seq_ok in Es.
    repeat split; try assumption; try congruence.
    intros Ha. subst allow. rewrite Bool.andb_true_r in Ec. apply Bool.negb_false_iff in Ec.
    destruct (find_oos (of_client o, of_owner o) s) as [oo|]; [|discriminate]. exists oo. split; [reflexivity|exact Ec].
Qed.

(* stateid_scope, lock state IDs *)
Theorem lock_stateid_scope : forall sq other c s lf,
  get_lofs sq other c s = inl lf ->
  find_lofs other s = Some lf /\ sq = lf_seq lf
  /\ exists o, find_oofs (lf_oofs lf) s = Some o /\ c = CurLeaf (of_handle o).
Proof.
  intros sq other c s lf H. unfold get_lofs in H.
  destruct (find_lofs other s) as [l|] eqn:Ef; [|discriminate].
  destruct c as [| |h]; try discriminate.
  destruct (find_oofs (lf_oofs l) s) as [o|] eqn:Eo; simpl in H; [|discriminate].
  destruct (h =? of_handle o) eqn:Eh; simpl in H; [|discriminate]. apply N.eqb_eq in Eh.
  destruct (compare_state_seq sq (lf_seq l) =? NFS4_OK) eqn:Es; [|discriminate].
  inversion H; subst l. apply compare_state_seq_ok in Es.
  split; [reflexivity|]. split; [exact Es|]. exists o. split; [exact Eo|congruence].
Qed.

(* I/O with a regular state ID is admitted only within the share reservation
   of the state it names (NFS4ERR_OPENMODE otherwise): do_io parks only then *)
Theorem io_stateid_scope : forall g t c k sid openerr ioerr s s' sq other,
  internalize sid = IsReg sq other ->
  do_io g t c k sid openerr ioerr s = (s', RpParkedIo) ->
  (exists o, get_oofs sq other false c (enter t s) = inl o /\ mask_subset (io_access k) (of_sa o) = true)
  \/ (exists lf, get_lofs sq other c (enter t s) = inl lf /\ mask_subset (io_access k) (lf_sa lf) = true).
Proof.
  intros g t c k sid openerr ioerr s s' sq other Hi H. unfold do_io in H. rewrite Hi in H. cbv zeta in H.
  destruct (get_oofs sq other false c (enter t s)) as [o|st] eqn:Eg.
  - destruct (mask_subset (io_access k) (of_sa o)) eqn:Es; [|inversion H]. left. exists o. split; [reflexivity|exact Es].
  - destruct (st =? ERR_BAD_STATEID); [|inversion H].
    destruct (get_lofs sq other c (enter t s)) as [lf|st2] eqn:El; [|inversion H].
    destruct (mask_subset (io_access k) (lf_sa lf)) eqn:Es; [|inversion H]. right. exists lf. split; [reflexivity|exact Es].
Qed.
