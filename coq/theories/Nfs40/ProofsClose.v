(* C19 close_replay_resolvable: after CLOSE the closed state ID stays in the
   tables (with an empty share reservation), and a retransmission of the CLOSE
   is answered from the cache. *)
From VF Require Import Nfs40.Model Nfs40.Proofs19 Nfs40.ProofsInv Nfs40.Proofs18.
From Coq Require Import Lia.
Open Scope N_scope.

Definition Uo (s : state) : Prop := NoDup (map of_other (st_oofs s)).
(* share mask of the open-owner file keyed k, if it is in the tables *)
Definition lsa (s : state) (k : N) : option mask := option_map of_sa (find_live_oofs k s).

Lemma find_live_map : forall k k' (f : oofs -> oofs) (l : list oofs),
  (forall x, of_other (f x) = of_other x /\ of_live (f x) = of_live x) ->
  find_by (fun o => (of_other o =? k') && of_live o) (map (fun x => if of_other x =? k then f x else x) l)
  = option_map (fun x => if of_other x =? k then f x else x) (find_by (fun o => (of_other o =? k') && of_live o) l).
Proof.
  intros k k' f l Hf. induction l as [|x tl IH]; simpl; [reflexivity|].
  destruct (of_other x =? k) eqn:E.
  - destruct (Hf x) as [E1 E2]. rewrite E1, E2. destruct ((of_other x =? k') && of_live x); [simpl; rewrite E; reflexivity|exact IH].
  - destruct ((of_other x =? k') && of_live x); [simpl; rewrite E; reflexivity|exact IH].
Qed.

Lemma lsa_upd_oofs : forall k f s k',
  Uo s -> (forall x, of_other (f x) = of_other x /\ of_live (f x) = of_live x) ->
  lsa (upd_oofs k f s) k' = option_map (fun x => of_sa (if of_other x =? k then f x else x)) (find_live_oofs k' s).
Proof.
  intros k f s k' HU Hf. unfold lsa, find_live_oofs, upd_oofs. simpl.
  rewrite (upd_by_map of_other k f (st_oofs s) HU), (find_live_map k k' f _ Hf).
  destruct (find_by _ (st_oofs s)); reflexivity.
Qed.

Lemma Uo_upd_oofs : forall k f s, (forall x, of_other (f x) = of_other x) -> Uo s -> Uo (upd_oofs k f s).
Proof. intros k f s Hf HU. unfold Uo, upd_oofs. simpl. rewrite upd_by_map_same; assumption. Qed.

Lemma find_by_filter_same : forall {A} (p q : A -> bool) (l : list A),
  (forall x, p x = true -> q x = true) -> find_by p (filter q l) = find_by p l.
Proof.
  intros A p q l H. induction l as [|x tl IH]; simpl; [reflexivity|].
  destruct (q x) eqn:Eq; simpl.
  - destruct (p x); [reflexivity|exact IH].
  - destruct (p x) eqn:Ep; [rewrite (H x Ep) in Eq; discriminate|exact IH].
Qed.

Lemma lsa_gc : forall other s k, lsa (gc_oofs other s) k = lsa s k.
Proof.
  intros other s k. unfold lsa, find_live_oofs, gc_oofs, del_by. simpl. f_equal. apply find_by_filter_same.
  intros x Hx. apply andb_prop in Hx. destruct Hx as [_ Hl]. rewrite Hl. rewrite !Bool.andb_false_r. reflexivity.
Qed.
Lemma Uo_gc : forall other s, Uo s -> Uo (gc_oofs other s).
Proof. intros other s HU. unfold Uo, gc_oofs, del_by. simpl. apply NoDup_map_filter. exact HU. Qed.

Lemma emit_close_oofs : forall h m s, st_oofs (emit_close h m s) = st_oofs s.
Proof. intros. apply (emit_close_view h m s). Qed.

(* releasing share counts does not change which open-owner files are in the tables, nor their masks *)
Lemma release_keeps : forall other cleared s, Uo s ->
  Uo (oofs_release other cleared s) /\ forall k, lsa (oofs_release other cleared s) k = lsa s k.
Proof.
  intros other cleared s HU. unfold oofs_release. destruct (find_oofs other s); [|split; [exact HU|reflexivity]].
  destruct (dec_count (of_rd o) (m_r cleared)) as [[rd zr] pr]. destruct (dec_count (of_wr o) (m_w cleared)) as [[wr zw] pw].
  set (f := fun o0 : oofs => mkOofs (of_other o0) (of_seq o0) (of_client o0) (of_owner o0) (of_handle o0) (of_sa o0) rd wr (of_live o0)).
  set (s2 := emit_close (of_handle o) (mkMask zr zw) (upd_oofs other f s)).
  assert (U2 : Uo s2) by (unfold Uo, s2; rewrite emit_close_oofs; apply Uo_upd_oofs; [reflexivity|exact HU]).
  assert (L2 : forall k, lsa s2 k = lsa s k).
  { intros k. unfold lsa at 1, find_live_oofs, s2. rewrite emit_close_oofs.
    change (option_map of_sa (find_by (fun o0 => (of_other o0 =? k) && of_live o0) (st_oofs (upd_oofs other f s)))) with (lsa (upd_oofs other f s) k).
    rewrite lsa_upd_oofs; [|exact HU|intros; split; reflexivity]. unfold lsa.
    destruct (find_live_oofs k s) as [x|]; [|reflexivity]. simpl. destruct (of_other x =? other); reflexivity. }
  assert (E : forall sx, Uo sx -> (forall k, lsa sx k = lsa s k) ->
              Uo (gc_oofs other sx) /\ forall k, lsa (gc_oofs other sx) k = lsa s k).
  { intros sx Ux Lx. split; [apply Uo_gc; exact Ux|]. intros k. rewrite lsa_gc. apply Lx. }
  destruct (pr || pw); [apply (E (panic s2)); [exact U2|exact L2]|apply (E s2); assumption].
Qed.

Lemma lofs_remove_keeps : forall other s, Uo s ->
  Uo (lofs_remove other s) /\ forall k, lsa (lofs_remove other s) k = lsa s k.
Proof.
  intros other s HU. unfold lofs_remove. destruct (find_lofs other s) as [lf|]; [|split; [exact HU|reflexivity]].
  match goal with |- Uo (if _ then ?a else _) /\ _ => set (s2 := a) end.
  assert (H2 : Uo s2 /\ forall k, lsa s2 k = lsa s k).
  { unfold s2.
    match goal with |- Uo (oofs_release ?a ?b ?x) /\ _ => assert (Hx : Uo x /\ forall k, lsa x k = lsa s k) end.
    { destruct (0 <? lf_count lf)%Z; [|split; [exact HU|reflexivity]].
      destruct (find_oofs (lf_oofs lf) s); [|split; [exact HU|reflexivity]].
      destruct (find_los (lf_client lf, lf_lokey lf) s); [|split; [exact HU|reflexivity]].
      destruct (find_pfile (of_handle o) s); [|split; [exact HU|reflexivity]].
      match goal with |- Uo (w_lofs (if ?c then _ else _) _) /\ _ => destruct c end; split; try exact HU; reflexivity. }
    destruct Hx as [Ux Lx]. destruct (release_keeps (lf_oofs lf) (lf_sa lf) _ Ux) as [Ur Lr].
    split; [exact Ur|]. intros k. rewrite Lr. apply Lx. }
  destruct (existsb _ _); [exact H2|]. destruct H2 as [A B]. split; [exact A|exact B].
Qed.

Lemma fold_lofs_remove_keeps : forall l s, Uo s ->
  Uo (fold_left (fun s o => lofs_remove o s) l s) /\ forall k, lsa (fold_left (fun s o => lofs_remove o s) l s) k = lsa s k.
Proof.
  induction l as [|a tl IH]; intros s HU; simpl; [split; [exact HU|reflexivity]|].
  destruct (lofs_remove_keeps a s HU) as [U1 L1]. destruct (IH _ U1) as [U2 L2].
  split; [exact U2|]. intros k. rewrite L2. apply L1.
Qed.

Lemma lsa_bump : forall k s k', Uo s -> lsa (oofs_bump_seq k s) k' = lsa s k'.
Proof.
  intros k s k' HU. unfold oofs_bump_seq. rewrite lsa_upd_oofs; [|exact HU|intros; split; reflexivity].
  unfold lsa. destruct (find_live_oofs k' s) as [x|]; [|reflexivity]. simpl. destruct (of_other x =? k); reflexivity.
Qed.

Lemma lsa_set_sa_same : forall k m s, Uo s -> lsa s k <> None -> lsa (oofs_set_sa k m s) k = Some m.
Proof.
  intros k m s HU Hn. unfold oofs_set_sa. rewrite lsa_upd_oofs; [|exact HU|intros; split; reflexivity].
  unfold lsa in Hn. destruct (find_live_oofs k s) as [x|] eqn:E; [|contradiction]. simpl.
  apply find_by_In in E. destruct E as [_ Ek]. apply andb_prop in Ek. destruct Ek as [Ek _]. rewrite Ek. reflexivity.
Qed.

(* txClose keeps the closed open-owner file in the tables, with an empty share mask *)
Theorem tx_close_keeps_stateid : forall sid c s s1 nsq other,
  Uo s -> tx_close sid c s = (s1, ResStateid nsq other, Some other) ->
  lsa s1 other = Some mask_none /\ nsq = next_seq (sid_seq sid) /\ sid_other sid = SoReg other.
Proof.
  intros sid c s s1 nsq other HU H. unfold tx_close in H.
  destruct (internalize_regular sid) as [|st|sq other'] eqn:Ei; try (inversion H; fail).
  destruct (get_oofs sq other' false c s) as [o|st] eqn:Eg; [|inversion H].
  inversion H; subst. clear H.
  destruct (open_stateid_scope _ _ _ _ _ _ Eg) as (Ef&_&Esq&_&_).
  assert (Esid : sid_other sid = SoReg other /\ sq = sid_seq sid).
  { unfold internalize_regular, internalize in Ei. destruct (sid_other sid); try discriminate.
    - destruct (sid_seq sid =? 0); discriminate.
    - destruct (sid_seq sid =? max_u32); discriminate.
    - inversion Ei. split; reflexivity. }
  destruct Esid as [Es1 Es2]. split; [|split; [congruence|exact Es1]].
  unfold oofs_remove_start.
  destruct (fold_lofs_remove_keeps (lofs_others_of_oofs other s) s HU) as [U1 L1].
  set (sa := fold_left _ _ s) in *.
  assert (Hl : lsa sa other = Some (of_sa o)) by (rewrite L1; unfold lsa; rewrite Ef; reflexivity).
  destruct (find_oofs other sa) as [o1|] eqn:Eo1.
  - destruct (release_keeps other (of_sa o1) sa U1) as [U2 L2].
    rewrite lsa_bump by (unfold oofs_set_sa; apply Uo_upd_oofs; [reflexivity|exact U2]).
    apply lsa_set_sa_same; [exact U2|]. rewrite L2, Hl. discriminate.
  - (* the open-owner file was found by get_oofs, so it is found here *)
    exfalso. unfold lsa, find_live_oofs in Hl. destruct (find_by _ (st_oofs sa)) as [x|] eqn:Ex; [|discriminate].
    apply find_by_In in Ex. destruct Ex as [Hin Ek]. apply andb_prop in Ek. destruct Ek as [Ek _].
    pose proof (find_by_None _ _ Eo1 x Hin) as Hn. simpl in Hn. congruence.
Qed.

(* close_replay_resolvable: in a state where the closed state ID is still in
   the tables and the owner caches the CLOSE reply, retransmitting the CLOSE
   (same seqid, same state ID) returns the cached reply without any effect *)
Theorem close_replay_resolvable : forall t sid seq c s other o oo nsq,
  sid_other sid = SoReg other -> nsq = next_seq (sid_seq sid) ->
  find_live_oofs other (enter t s) = Some o ->
  find_oos (of_client o, of_owner o) (enter t s) = Some oo ->
  oo_intx oo = false -> oo_last oo = Some (mkCached KClose (ResStateid nsq other) (Some other)) -> seq = oo_lastseq oo ->
  do_req 0 t c (RClose sid seq) s = (enter t s, RpOp (ResStateid nsq other))
  \/ exists st, do_req 0 t c (RClose sid seq) s = (s, RpPutfhFail st).
Proof.
  intros t sid seq c s other o oo nsq Hs Hn Hf Ho Hx Hl Hq. unfold do_req.
  destruct (resolve_fh c s) as [cu|st]; [left|right; exists st; reflexivity].
  assert (Hi : internalize_regular sid = IsReg (sid_seq sid) other).
  { unfold internalize_regular, internalize. rewrite Hs. reflexivity. }
  rewrite (owner_op_replay t false KClose sid seq PolDeny (tx_close sid cu) s (sid_seq sid) other o oo _ Hi Hf Ho Hx Hl Hq).
  f_equal. f_equal. apply (replay_reply_same KClose (Some sid)); [reflexivity|].
  simpl. unfold is_next_sid. rewrite Hs, N.eqb_refl. simpl. subst nsq. apply N.eqb_refl.
Qed.
