#!/usr/bin/env python3
"""Generic driver behind /verif/bin/check.

For one property it
  1. rebuilds the Coq theories of the property's area (incremental make),
     runs the source gates (no Admitted/Axiom/...), re-runs coqc on the
     area's Properties.v and parses every `Print Assumptions`;
  2. runs the optional static obligations regenerated from /repo (translator);
  3. builds the Go harness against /repo's working tree with -tags verif,
     runs the corpus and freshly generated histories on the implementation,
     evaluates the case files with coqc (vm_compute): model-vs-code
     mismatches and violations of the property predicate P on the
     implementation trace;
  4. decides: exit 0 / VIOLATION with replay / VIOLATION ... no-failing-input-found
     / KNOWN-FINDING, and writes evidence/<id>.json.
"""
import concurrent.futures as cf
import hashlib
import importlib.util
import json
import os
import re
import shutil
import subprocess
import sys
import time

VERIF = os.path.dirname(os.path.dirname(os.path.abspath(__file__)))
REPO = os.environ.get("VERIF_REPO", "/repo")
COQ = os.path.join(VERIF, "coq")
HARNESS = os.path.join(VERIF, "harness")
BUILD = os.path.join(VERIF, ".build")
# scratch directory of this invocation (concurrent invocations must not collide)
RUNROOT = os.path.join(BUILD, "run", "p%d" % os.getpid())
GOENV = dict(os.environ, GOFLAGS="-mod=mod", GOPROXY="off", GOTOOLCHAIN="auto")
GOENV.pop("GOSUMDB", None)  # GOSUMDB=off breaks the cached-toolchain switch

GATE_RE = re.compile(
    r"\b(Admitted|admit|Axiom|Axioms|Parameter|Parameters|Conjecture|Admit Obligations|"
    r"Unset Guard Checking|Unset Positivity Checking|Unset Universe Checking|bypass_check|"
    r"type-in-type|impredicative-set|native_compute)\b")


def sh(cmd, cwd=None, timeout=1200, env=None):
    p = subprocess.run(cmd, cwd=cwd, shell=isinstance(cmd, str), stdout=subprocess.PIPE,
                       stderr=subprocess.STDOUT, timeout=timeout, env=env, text=True)
    return p.returncode, p.stdout


def load_cfg(pid):
    path = os.path.join(VERIF, "checks", pid + ".py")
    spec = importlib.util.spec_from_file_location("check_" + pid, path)
    mod = importlib.util.module_from_spec(spec)
    spec.loader.exec_module(mod)
    return mod


# --------------------------------------------------------------------------
# Coq side

def strip_comments(src):
    out, depth, i = [], 0, 0
    while i < len(src):
        if src.startswith("(*", i):
            depth += 1
            i += 2
        elif src.startswith("*)", i) and depth:
            depth -= 1
            i += 2
        else:
            if not depth:
                out.append(src[i])
            i += 1
    return "".join(out)


def coq_gate(area_dirs):
    """Source gate: none of the forbidden commands in the area's .v files."""
    bad = []
    for d in area_dirs:
        for root, _, files in os.walk(os.path.join(COQ, d)):
            for f in files:
                if f.endswith(".v"):
                    p = os.path.join(root, f)
                    src = strip_comments(open(p).read())
                    src = re.sub(r'"[^"]*"', '""', src)
                    for m in GATE_RE.finditer(src):
                        bad.append("%s: %s" % (os.path.relpath(p, VERIF), m.group(0)))
                    # Variable/Hypothesis outside a section
                    depth = 0
                    for line in src.splitlines():
                        s = line.strip()
                        if re.match(r"Section\s+\w+", s):
                            depth += 1
                        elif re.match(r"End\s+\w+", s) and depth:
                            depth -= 1
                        elif depth == 0 and re.match(r"(Variable|Variables|Hypothesis|Hypotheses|Context)\b", s):
                            bad.append("%s: %s outside a section" % (os.path.relpath(p, VERIF), s.split()[0]))
    return bad


def coq_build(targets, jobs=16, timeout=1500):
    """Incremental build of the given .vo targets. Returns (ok, log)."""
    if not os.path.exists(os.path.join(COQ, "Makefile")):
        rc, out = sh("coq_makefile -f _CoqProject -o Makefile", cwd=COQ)
        if rc:
            return False, out
    rc, out = sh(["timeout", str(timeout), "make", "-j%d" % jobs] + targets, cwd=COQ, timeout=timeout + 30)
    return rc == 0, out


def coq_assumptions(properties_v, timeout=600):
    """Re-run coqc on a Properties.v and pair each `Print Assumptions X.`
    with its output block.  Returns (ok, {theorem: 'closed' | [axioms]}, log)."""
    src = strip_comments(open(os.path.join(COQ, properties_v)).read())
    names = re.findall(r"Print\s+Assumptions\s+([\w.']+)\s*\.", src)
    theorems = re.findall(r"^\s*(?:Theorem|Lemma|Corollary)\s+([\w']+)", src, re.M)
    tmp = os.path.join(RUNROOT, "props", hashlib.sha1(properties_v.encode()).hexdigest()[:10])
    os.makedirs(tmp, exist_ok=True)
    rc, out = sh(["timeout", str(timeout), "coqc", "-Q", os.path.join(COQ, "theories"), "VF",
                  "-o", os.path.join(tmp, os.path.basename(properties_v) + "o"), os.path.join(COQ, properties_v)], cwd=tmp, timeout=timeout + 30)
    if rc:
        return False, {}, out
    blocks, cur = [], None
    for line in out.splitlines():
        if line.startswith("Closed under the global context"):
            blocks.append("closed")
            cur = None
        elif line.startswith("Axioms:"):
            cur = []
            blocks.append(cur)
        elif cur is not None and line.strip():
            if not line.startswith(" ") or re.match(r"^\S+\s*:", line.strip()):
                if re.match(r"^[\w.']+\s*:", line.strip()):
                    cur.append(line.strip().split(":")[0].strip())
    res = {}
    for n, b in zip(names, blocks):
        res[n] = b
    ok = len(names) == len(blocks) and set(theorems) <= set(names)
    log = out if ok else out + "\nPrint Assumptions count mismatch: %d names, %d blocks; theorems without Print Assumptions: %s" % (
        len(names), len(blocks), sorted(set(theorems) - set(names)))
    return ok, res, log


VERDICT_RE = re.compile(r"^r(\d+) = (VOk|VMismatch (\d+) \"([^\"]*)\"|VViolation (\d+) \"([^\"]*)\")\s*$")


def eval_cases(dirpath, shard, timeout=1800):
    """coqc one case file; returns list of (index, verdict dict) and an error string."""
    rc, out = sh(["timeout", str(timeout), "coqc", "-Q", os.path.join(COQ, "theories"), "VF", shard + ".v"],
                 cwd=dirpath, timeout=timeout + 30)
    res = []
    for line in out.splitlines():
        m = VERDICT_RE.match(line.strip())
        if not m:
            continue
        i = int(m.group(1))
        if m.group(2) == "VOk":
            res.append((i, {"v": "ok"}))
        elif m.group(2).startswith("VMismatch"):
            res.append((i, {"v": "mismatch", "step": int(m.group(3)), "what": m.group(4)}))
        else:
            # "kind" or "kind@step;kind@step;..." (first violation per property)
            kinds = []
            for part in m.group(6).split(";"):
                if "@" in part:
                    k, st = part.rsplit("@", 1)
                    kinds.append((k, int(st)))
                else:
                    kinds.append((part, int(m.group(5))))
            res.append((i, {"v": "violation", "step": kinds[0][1], "kind": kinds[0][0], "kinds": kinds}))
    err = None
    if rc:
        err = "coqc failed on %s/%s.v:\n%s" % (dirpath, shard, out[-3000:])
    return res, err


# --------------------------------------------------------------------------
# Go side

def tree_id():
    """Identity of /repo's current working tree (HEAD + uncommitted diff)."""
    _, head = sh(["git", "-C", REPO, "rev-parse", "HEAD"])
    _, diff = sh(["git", "-C", REPO, "diff", "HEAD"])
    _, unt = sh(["git", "-C", REPO, "status", "--porcelain"])
    return hashlib.sha1((head + diff + unt).encode()).hexdigest()[:16]


def dir_hash(paths):
    h = hashlib.sha1()
    for base in paths:
        for root, dirs, files in os.walk(base):
            dirs.sort()
            if ".build" in dirs:
                dirs.remove(".build")
            for f in sorted(files):
                if f.startswith(("Proofs", "Properties")):
                    continue  # proofs do not influence what the case evaluator computes
                if f.endswith((".v", ".go", ".py", ".mod", ".sum", ".json")):
                    p = os.path.join(root, f)
                    h.update(p.encode())
                    h.update(open(p, "rb").read())
    return h.hexdigest()[:16]


def go_build(cmd, race=False, timeout=1500):
    os.makedirs(os.path.join(BUILD, "bin"), exist_ok=True)
    out_bin = os.path.join(BUILD, "bin", cmd + ("_race" if race else ""))
    args = ["go", "build", "-tags", "verif"] + (["-race"] if race else []) + ["-o", out_bin, "./cmd/" + cmd]
    hdir = HARNESS
    if os.path.realpath(REPO) != "/repo":
        # checks run against a scratch worktree: build a copy of the harness
        # module whose replace directive points there
        tag = hashlib.sha1(os.path.realpath(REPO).encode()).hexdigest()[:10]
        hdir = os.path.join(BUILD, "harness_" + tag)
        shutil.rmtree(hdir, ignore_errors=True)
        shutil.copytree(HARNESS, hdir)
        gm = open(os.path.join(hdir, "go.mod")).read().replace("=> /repo", "=> " + os.path.realpath(REPO))
        open(os.path.join(hdir, "go.mod"), "w").write(gm)
        out_bin = os.path.join(BUILD, "bin", cmd + "_" + tag + ("_race" if race else ""))
        args[args.index("-o") + 1] = out_bin
    shutil.copy(os.path.join(REPO, "go.sum"), os.path.join(hdir, "go.sum"))
    rc, out = sh(args, cwd=hdir, timeout=timeout, env=GOENV)
    return rc == 0, out, out_bin


def run_harness(binpath, mode_args, outdir, timeout=1500):
    shutil.rmtree(outdir, ignore_errors=True)
    os.makedirs(outdir)
    rc, out = sh(["timeout", str(timeout), binpath] + mode_args + ["-out", outdir], timeout=timeout + 30)
    return rc == 0, out


def evaluate_dir(outdir, workers=16):
    """Evaluate every shard in outdir. Returns (verdicts, errors) where verdicts
    is a list of dicts with shard, index, history."""
    meta = json.load(open(os.path.join(outdir, "meta.json")))
    verdicts, errors = [], []
    with cf.ThreadPoolExecutor(max_workers=workers) as ex:
        futs = {ex.submit(eval_cases, outdir, s): s for s in meta["shards"]}
        for fut in cf.as_completed(futs):
            s = futs[fut]
            res, err = fut.result()
            hist = json.load(open(os.path.join(outdir, s + ".json")))
            if err:
                errors.append(err)
            if len(res) != len(hist) and not err:
                errors.append("shard %s: %d verdicts for %d cases" % (s, len(res), len(hist)))
            for i, v in res:
                v = dict(v, shard=s, index=i, history=hist[i] if i < len(hist) else None)
                verdicts.append(v)
    verdicts.sort(key=lambda v: (v["shard"], v["index"]))
    return meta, verdicts, errors


def replay_histories(binpath, histories, tag):
    """Run given histories on the implementation + Coq; returns verdict list."""
    d = os.path.join(RUNROOT, tag)
    shutil.rmtree(d, ignore_errors=True)
    os.makedirs(d)
    inp = os.path.join(d, "in.json")
    json.dump(histories, open(inp, "w"))
    ok, out = run_harness(binpath, ["replay", "-in", inp, "-shards", str(16 if len(histories) >= 32 else 1)], os.path.join(d, "out"))
    if not ok:
        return None, "harness replay failed: " + out[-2000:]
    meta, verdicts, errors = evaluate_dir(os.path.join(d, "out"))
    if errors:
        return verdicts, "\n".join(errors)
    return verdicts, None


def same_failure(v, ref):
    if v["v"] != ref["v"]:
        return False
    if v["v"] == "violation":
        return ref["kind"] in [k for (k, _) in v.get("kinds", [(v["kind"], 0)])]
    return True


def expand_violation(v):
    """One entry per (kind, step) of a multi-kind violation verdict."""
    return [dict(v, kind=k, step=st) for (k, st) in v.get("kinds", [(v["kind"], v["step"])])]


def minimise(binpath, history, ref, tag, budget_s=120):
    """ddmin over history["ops"], batching all candidates of a round into one
    harness+coqc call. Keeps the failure kind (violation kind / mismatch)."""
    t0 = time.time()
    ops = history.get("ops")
    if not isinstance(ops, list) or len(ops) <= 1:
        return history
    # First cut everything after the failing step (steps index ops for most areas).
    cur = list(ops)
    n = 2
    rounds = 0
    while len(cur) >= 2 and time.time() - t0 < budget_s:
        rounds += 1
        chunk = max(1, len(cur) // n)
        cands = []
        for i in range(0, len(cur), chunk):
            cands.append(cur[:i] + cur[i + chunk:])
        cands = [c for c in cands if c]
        hs = [dict(history, ops=c) for c in cands]
        verdicts, err = replay_histories(binpath, hs, tag + "_min")
        if verdicts is None or err:
            break
        hit = None
        for v in verdicts:
            if same_failure(v, ref):
                hit = v
                break
        if hit is not None:
            cur = hit["history"]["ops"]
            n = max(n - 1, 2)
        else:
            if chunk == 1:
                break
            n = min(len(cur), n * 2)
    return dict(history, ops=cur)


# --------------------------------------------------------------------------
# Known findings

def load_known():
    p = os.path.join(VERIF, "known_findings.json")
    if os.path.exists(p):
        return json.load(open(p))
    return {"findings": [], "fixed": []}


def known_match(pid, signature, known):
    for f in known.get("findings", []):
        if f["property"] == pid and f["signature"] == signature:
            return f
    return None


# --------------------------------------------------------------------------

def write_replay(pid, seed, name, payload):
    d = os.path.join(VERIF, "replays")
    os.makedirs(d, exist_ok=True)
    p = os.path.join(d, "%s-%s-%s.json" % (pid, seed, name))
    json.dump(payload, open(p, "w"), indent=1)
    return p


def main(argv):
    import argparse
    ap = argparse.ArgumentParser()
    ap.add_argument("pid")
    ap.add_argument("--tier", default=os.environ.get("VERIF_TIER", "quick"), choices=["quick", "thorough"])
    ap.add_argument("--replay", default=None)
    ap.add_argument("--seed", type=int, default=int(os.environ.get("VERIF_SEED", "20260923") or 20260923))
    args = ap.parse_args(argv)
    pid, tier, seed = args.pid, args.tier, args.seed
    t0 = time.time()
    cfg = load_cfg(pid).CONFIG
    thorough = tier == "thorough"
    os.makedirs(BUILD, exist_ok=True)
    known = load_known()

    problems = []      # (kind, text, replay-payload)  => no-failing-input-found unless a violation is found
    violations = []    # concrete failing inputs
    obligations = []   # (name, discharged bool, note)
    trusted = list(cfg.get("trusted_base", []))
    assumptions_seen = {}
    log = []

    # ---- 1. Coq -----------------------------------------------------------
    area_dirs = cfg["coq_dirs"]
    bad = coq_gate(area_dirs)
    if bad:
        problems.append(("gate", "forbidden constructs in Coq sources: " + "; ".join(bad), None))
    targets = cfg["coq_targets"]
    if thorough and cfg.get("clean_thorough", True):
        for d in area_dirs:
            for root, _, files in os.walk(os.path.join(COQ, d)):
                for f in files:
                    if f.endswith((".vo", ".vok", ".vos", ".glob")) or (f.startswith(".") and f.endswith(".aux")):
                        os.remove(os.path.join(root, f))
    ok, out = coq_build(targets)
    if not ok:
        m = re.findall(r'File "([^"]+)", line (\d+)', out)
        problems.append(("coq-build", "Coq build of %s failed%s:\n%s" % (
            targets, (" at %s:%s" % m[-1]) if m else "", out[-2500:]), None))
    theorem_names = []
    for pv in cfg["properties_files"]:
        if not ok:
            break
        aok, res, alog = coq_assumptions(pv)
        if not aok:
            problems.append(("assumptions", "could not check %s:\n%s" % (pv, alog[-2500:]), None))
            continue
        for n, b in res.items():
            theorem_names.append(n)
            assumptions_seen[n] = b
            allowed = set(cfg.get("allowed_axioms", []))
            if b == "closed":
                obligations.append((n, True, "Closed under the global context"))
            else:
                extra = [a for a in b if a not in allowed]
                obligations.append((n, not extra, "Axioms: " + ", ".join(b)))
                if extra:
                    problems.append(("axioms", "theorem %s depends on axioms not in the trusted base: %s" % (n, extra), None))
    for n in cfg.get("required_theorems", []):
        if ok and n not in theorem_names:
            obligations.append((n, False, "missing from Properties.v"))
            problems.append(("missing-theorem", "required theorem %s is not stated/closed in %s" % (n, cfg["properties_files"]), None))

    # ---- 2. static obligations regenerated from /repo ----------------------
    for fn in cfg.get("static_obligations", []):
        for (name, discharged, note, payload) in fn(tier=tier, seed=seed, build=BUILD, repo=REPO, verif=VERIF):
            obligations.append((name, discharged, note))
            if not discharged:
                problems.append(("static:" + name, note, payload))

    # ---- 3. correspondence --------------------------------------------------
    coverage = {"harness": []}
    total_cases = total_events = total_nontrivial = 0
    samples = []
    for h in cfg.get("harnesses", []):
        bok, bout, binpath = go_build(h["cmd"], race=thorough and h.get("race", False))
        if not bok:
            problems.append(("go-build", "harness %s does not build against /repo:\n%s" % (h["cmd"], bout[-2500:]), None))
            continue
        runs = []
        if args.replay:
            payload = json.load(open(args.replay))
            hs = payload.get("histories") or ([payload["history"]] if payload.get("history") else [])
            if hs and payload.get("harness", h["cmd"]) == h["cmd"]:
                runs.append(("replay", ["replay", "-in", "@", "-shards", "1"], hs))
        else:
            corpus_dir = os.path.join(VERIF, "corpus", pid)
            hs = []
            if os.path.isdir(corpus_dir):
                for f in sorted(os.listdir(corpus_dir)):
                    if f.endswith(".json"):
                        c = json.load(open(os.path.join(corpus_dir, f)))
                        if c.get("harness", h["cmd"]) == h["cmd"]:
                            hs.extend(c["histories"])
            if hs:
                runs.append(("corpus", ["replay", "-in", "@", "-shards", "1"], hs))
            n = h["cases_thorough"] if thorough else h["cases_quick"]
            shards = h.get("shards_thorough", 16) if thorough else h.get("shards_quick", 8)
            gen = ["gen", "-seed", str(seed), "-cases", str(n), "-shards", str(shards)] + (["-thorough"] if thorough else [])
            runs.append(("gen", gen, None))
        for (rname, rargs, hs) in runs:
            outdir = os.path.join(RUNROOT, "%s_%s_%s" % (pid, h["cmd"], rname))
            if hs is not None:
                os.makedirs(os.path.dirname(outdir), exist_ok=True)
                inp = outdir + "_in.json"
                json.dump(hs, open(inp, "w"))
                rargs = [inp if a == "@" else a for a in rargs]
            cache_file = None
            if h.get("shared") and rname == "gen" and not os.environ.get("VERIF_NO_CACHE"):
                # several properties are decided from one run of this harness: reuse
                # the verdicts computed for the same tree, sources, seed and tier
                key = hashlib.sha1(json.dumps([h["cmd"], tree_id(), dir_hash([os.path.join(HARNESS, "cmd", h["cmd"]), os.path.join(HARNESS, "internal")] + [os.path.join(COQ, d) for d in h.get("coq_dirs", area_dirs)]), rargs, os.path.realpath(REPO)]).encode()).hexdigest()[:20]
                cache_file = os.path.join(BUILD, "cache", key + ".json")
            if cache_file and os.path.exists(cache_file):
                cached = json.load(open(cache_file))
                meta, verdicts, errors = cached["meta"], cached["verdicts"], cached["errors"]
                log.append("reused shared run " + cache_file)
            else:
                procs = h.get("procs", 1) if rname == "gen" else 1
                if procs > 1:
                    # several harness processes in parallel, each with its own sub-seed
                    def one(i):
                        a = list(rargs)
                        a[a.index("-seed") + 1] = str(seed * 1000 + i)
                        a[a.index("-cases") + 1] = str(max(1, int(a[a.index("-cases") + 1]) // procs))
                        a[a.index("-shards") + 1] = str(max(1, int(a[a.index("-shards") + 1]) // procs))
                        d = "%s_p%d" % (outdir, i)
                        ok_, out_ = run_harness(binpath, a, d, timeout=h.get("timeout", 1500))
                        if not ok_:
                            return None, out_
                        return evaluate_dir(d, workers=max(2, 16 // procs)), None
                    with cf.ThreadPoolExecutor(max_workers=procs) as ex:
                        parts = list(ex.map(one, range(procs)))
                    bad = [o for (r_, o) in parts if r_ is None]
                    if bad:
                        problems.append(("harness-run", "harness %s %s failed:\n%s" % (h["cmd"], rname, bad[0][-2500:]), None))
                        continue
                    meta, verdicts, errors = None, [], []
                    for i, (r_, _) in enumerate(parts):
                        m_, v_, e_ = r_
                        for v in v_:
                            v["shard"] = "p%d_%s" % (i, v["shard"])
                        verdicts += v_
                        errors += e_
                        if meta is None:
                            meta = m_
                        else:
                            for k in ("cases", "events", "distinct_nontrivial", "skipped"):
                                meta[k] = meta.get(k, 0) + m_.get(k, 0)
                            for k in ("op_histogram", "outcome_histogram"):
                                for kk, vv in m_[k].items():
                                    meta[k][kk] = meta[k].get(kk, 0) + vv
                            for kk, vv in m_["extra_max"].items():
                                meta["extra_max"][kk] = max(meta["extra_max"].get(kk, 0), vv)
                            meta["exec_errors"] = (meta.get("exec_errors") or []) + (m_.get("exec_errors") or [])
                else:
                    rok, rout = run_harness(binpath, rargs, outdir, timeout=h.get("timeout", 1500))
                    if not rok:
                        problems.append(("harness-run", "harness %s %s failed:\n%s" % (h["cmd"], rname, rout[-2500:]), None))
                        continue
                    meta, verdicts, errors = evaluate_dir(outdir)
                if cache_file and not errors:
                    os.makedirs(os.path.dirname(cache_file), exist_ok=True)
                    json.dump({"meta": meta, "verdicts": verdicts, "errors": errors}, open(cache_file, "w"))
            for e in errors:
                problems.append(("case-eval", e, None))
            for e in meta.get("exec_errors") or []:
                problems.append(("harness-exec", "harness %s: %s" % (h["cmd"], e), None))
            total_cases += meta["cases"]
            total_events += meta["events"]
            total_nontrivial += meta["distinct_nontrivial"]
            samples.extend(meta["samples"][:1])
            coverage["harness"].append({
                "cmd": h["cmd"], "run": rname, "cases": meta["cases"], "events": meta["events"],
                "distinct_nontrivial": meta["distinct_nontrivial"], "op_histogram": meta["op_histogram"],
                "outcome_histogram": meta["outcome_histogram"], "extra_max": meta["extra_max"], "rule": meta["rule"],
                "skipped": meta.get("skipped", 0)})
            kinds = cfg.get("violation_kinds")  # None = every kind belongs to this property
            for v0 in verdicts:
                if v0["v"] == "violation":
                    mine = 0
                    for v in expand_violation(v0):
                        if v["kind"].startswith("mismatch:"):
                            continue
                        if kinds is not None and not any(v["kind"].startswith(k) for k in kinds):
                            continue
                        mine += 1
                        violations.append(dict(v, harness=h["cmd"], bin=binpath))
                    if not mine:
                        # only other properties' predicates fired on this history; if the model
                        # disagrees with the implementation as well, this property is no longer
                        # shown to hold on it -- unless the disagreement comes after a recorded
                        # known finding (of whatever property) was triggered in this history:
                        # the model is not required to follow the implementation past a known defect
                        kf_steps = [st for (k, st) in v0.get("kinds", [])
                                    if any(f["signature"] == k for f in known.get("findings", []))]
                        for (k, st) in v0.get("kinds", []):
                            if k.startswith("mismatch:") and any(st >= ks for ks in kf_steps):
                                continue
                            if k.startswith("mismatch:"):
                                problems.append(("mismatch", "model and implementation disagree (harness %s, step %d, %s)" % (
                                    h["cmd"], st, k[len("mismatch:"):]),
                                    dict(v0, v="mismatch", step=st, what=k[len("mismatch:"):], harness=h["cmd"], bin=binpath)))
                elif v0["v"] == "mismatch":
                    problems.append(("mismatch", "model and implementation disagree (harness %s, step %d, %s)" % (
                        h["cmd"], v0["step"], v0["what"]), dict(v0, harness=h["cmd"], bin=binpath)))

    # ---- 4. decide ----------------------------------------------------------
    exit_code = 0
    lines = []
    reported = set()
    n_new_viol = 0
    for v in violations:
        sig = v["kind"]
        if sig in reported:
            continue
        reported.add(sig)
        kf = known_match(pid, sig, known)
        if kf:
            lines.append("KNOWN-FINDING: property=%s %s" % (pid, kf["description"]))
            continue
        small = minimise(v["bin"], v["history"], v, "%s_%s" % (pid, v["harness"]))
        path = write_replay(pid, seed, re.sub(r"\W+", "_", sig)[:40], {
            "property": pid, "kind": sig, "step": v["step"], "harness": v["harness"],
            "history": small, "original_history": v["history"],
            "how": "bin/check %s --replay <this file> re-runs the history on /repo and re-evaluates P in Coq" % pid})
        lines.append("VIOLATION property=%s replay=%s" % (pid, os.path.relpath(path, VERIF)))
        n_new_viol += 1
        exit_code = 1
    if problems and not n_new_viol and cfg.get("extend"):
        # The correspondence is broken but P held on everything explored so far:
        # search near the disagreeing histories (area-specific extensions of the
        # history up to the disagreeing step) for an input on which P fails.
        mism = [p for p in problems if p[0] == "mismatch"][:3]
        kinds = cfg.get("violation_kinds")
        for (_, _, v) in mism:
            cands = cfg["extend"](v["history"], v["step"])
            if not cands:
                continue
            verdicts, err = replay_histories(v["bin"], cands, "%s_%s_ext" % (pid, v["harness"]))
            hit = None
            for w0 in verdicts or []:
                if w0["v"] != "violation":
                    continue
                for w in expand_violation(w0):
                    if w["kind"].startswith("mismatch:"):
                        continue
                    if (kinds is None or any(w["kind"].startswith(k) for k in kinds)) \
                            and not known_match(pid, w["kind"], known):
                        hit = w
                        break
                if hit:
                    break
            if hit:
                small = minimise(v["bin"], hit["history"], hit, "%s_%s" % (pid, v["harness"]))
                path = write_replay(pid, seed, re.sub(r"\W+", "_", hit["kind"])[:40], {
                    "property": pid, "kind": hit["kind"], "step": hit["step"], "harness": v["harness"],
                    "history": small, "found_by": "extension search after a model/implementation mismatch",
                    "how": "bin/check %s --replay <this file>" % pid})
                lines.append("VIOLATION property=%s replay=%s" % (pid, os.path.relpath(path, VERIF)))
                n_new_viol += 1
                exit_code = 1
                break
    if problems and not n_new_viol:
        # A static obligation that no longer checks may name a failing-input search of its own
        # (payload["search"]: a harness program that looks for a concrete concurrent schedule the
        # sequential harnesses cannot exhibit, judged by an oracle that is sound for every
        # implementation the obligation's theorem covers).
        for (k, t, payload) in problems:
            srch = payload.get("search") if isinstance(payload, dict) else None
            if not srch or not k.startswith("static:"):
                continue
            bok, bout, sbin = go_build(srch["cmd"])
            if not bok:
                log.append("failing-input search %s does not build: %s" % (srch["cmd"], bout[-500:]))
                continue
            rc, out = sh(["timeout", "120", sbin, "-seed", str(seed), "-budget", "60" if thorough else "25"], timeout=150)
            try:
                found = json.loads(out.strip().splitlines()[-1])
            except Exception:
                log.append("failing-input search %s: unreadable output %r" % (srch["cmd"], out[-300:]))
                continue
            log.append("failing-input search %s after %s: rounds=%s found=%s" % (srch["cmd"], k, found.get("rounds"), found.get("found")))
            if found.get("found"):
                sig = "%s:%s" % (pid, srch["kind"])
                if known_match(pid, sig, known):
                    continue
                path = write_replay(pid, seed, re.sub(r"\W+", "_", sig)[:40], {
                    "property": pid, "kind": sig, "harness": srch["cmd"], "schedule": found,
                    "broken_obligation": k[len("static:"):], "detail": t,
                    "found_by": "concurrent failing-input search after the static obligation stopped checking",
                    "how": "cd harness && go build -tags verif -o /tmp/%s ./cmd/%s && /tmp/%s -seed %d (stops at the first round without a sequential explanation)" % (
                        srch["cmd"], srch["cmd"], srch["cmd"], found.get("seed", seed))})
                lines.append("VIOLATION property=%s replay=%s" % (pid, os.path.relpath(path, VERIF)))
                n_new_viol += 1
                exit_code = 1
                break
    if problems and not n_new_viol:
        # the property is no longer shown; no failing input found by the search above
        mism = [p for p in problems if p[0] == "mismatch"]
        payload = {"property": pid, "no_failing_input_found": True,
                   "broken": [{"what": k, "detail": t} for (k, t, _) in problems[:20]],
                   "theorems": theorem_names}
        if mism:
            v = mism[0][2]
            small = minimise(v["bin"], v["history"], v, "%s_%s" % (pid, v["harness"]))
            payload["harness"] = v["harness"]
            payload["history"] = small
            payload["correspondence"] = "VF.%s check_case: model/implementation mismatch at step %d (%s)" % (
                cfg["coq_dirs"][0], v["step"], v["what"])
        path = write_replay(pid, seed, "unproved", payload)
        lines.append("VIOLATION property=%s replay=%s no-failing-input-found" % (pid, os.path.relpath(path, VERIF)))
        exit_code = 1

    discharged = sum(1 for o in obligations if o[1])
    trusted += ["Coq 8.16.1 kernel + VM (vm_compute); no native_compute",
                "Print Assumptions: " + "; ".join("%s: %s" % (n, "closed" if b == "closed" else "axioms " + ",".join(b))
                                                   for n, b in sorted(assumptions_seen.items()))]
    ev = {
        "property_id": pid, "tier": tier, "seed": seed, "level": "proof",
        "coverage": {
            "obligations": max(len(obligations), 1), "discharged": discharged,
            "obligation_list": [{"name": n, "discharged": d, "note": note} for (n, d, note) in obligations],
            "checker_cmd": "make -C coq %s && coqc %s (Print Assumptions) && coqc cases_*.v" % (
                " ".join(targets), " ".join(cfg["properties_files"])),
            "trusted_base": trusted,
            "evaluations": total_cases, "distinct_nontrivial": total_nontrivial,
            "traces_validated_against_impl": total_cases, "events": total_events,
            "rule": "; ".join(sorted(set(h["rule"] for h in coverage["harness"]))),
            "samples": samples[:3] or ["no correspondence cases in this run"],
            "correspondence": coverage["harness"],
            "problems": [{"what": k, "detail": t[:600]} for (k, t, _) in problems[:10]],
            "repo_tree": tree_id(),
        },
        "assumptions": cfg.get("assumptions", []),
        "wall_s": round(time.time() - t0, 1),
        "violations": n_new_viol + (1 if (problems and not n_new_viol) else 0),
    }
    # evidence describes runs against /repo itself; runs against a scratch worktree
    # (VERIF_REPO, used for mutation experiments) must not overwrite it
    evdir = os.path.join(VERIF, "evidence") if os.path.realpath(REPO) == "/repo" else os.path.join(BUILD, "evidence_scratch")
    os.makedirs(evdir, exist_ok=True)
    json.dump(ev, open(os.path.join(evdir, pid + ".json"), "w"), indent=1)
    shutil.rmtree(RUNROOT, ignore_errors=True)
    for l in lines:
        print(l)
    print("%s tier=%s obligations=%d/%d cases=%d events=%d problems=%d wall=%.1fs -> exit %d" % (
        pid, tier, discharged, len(obligations), total_cases, total_events, len(problems), time.time() - t0, exit_code))
    if problems:
        for (k, t, _) in problems[:5]:
            print("  problem[%s]: %s" % (k, t[:400].replace("\n", "\n    ")))
    return exit_code


if __name__ == "__main__":
    sys.exit(main(sys.argv[1:]))
